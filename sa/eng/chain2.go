package eng

import (
	"fmt"
	"go/token"
	"go/types"

	"golang.org/x/tools/go/ssa"
)

// CHAIN on SSA. A chain loop walks the rows of an ends ([]int) or endss ([][]int) slice by a +1 induction variable
// and carries a running lower bound P (an int phi of the loop header) that is used together with the current
// element e: as arguments of one call, as the two bounds of a slice expression, in an (in)equality test (the
// "previous end" idiom), or as the initial lower bound of an inner chain loop over e.
// The value P takes for the next iteration is resolved through the body's phis
//   level 2 (e is an int):   it must be e on every path;
//   level 3 (e is a []int):  under the assumption len(e) > 0 it must be e[len(e)-1] (or the final lower bound of an
//                            inner chain loop over e that started from P), under len(e) == 0 it must be P itself
//                            (an unguarded e[len(e)-1] is LASTELEM's finding, not CHAIN's).

// ChainLoop2 is one recognised loop.
type ChainLoop2 struct {
	Fn     *ssa.Function
	Loop   *Loop
	Offset *ssa.Phi
	Elem   ssa.Value
	Level  int
	OK     bool
	Why    string
	Pos    token.Pos
}

func isPlainIntT(t types.Type) bool {
	b, ok := t.Underlying().(*types.Basic)
	return ok && b.Kind() == types.Int
}

func isIntSliceSliceT(t types.Type) bool {
	s, ok := t.Underlying().(*types.Slice)
	return ok && isIntSliceT(s.Elem())
}

// loopElems: loads X[iv] inside the loop with X an []int / [][]int and iv an induction variable (+1) of the loop.
func loopElems(l *Loop) []ssa.Value {
	ivs := l.InductionVars()
	isIV := func(v ssa.Value) bool {
		if phi, ok := v.(*ssa.Phi); ok {
			return ivs[phi] == 1
		}
		// go/ssa lowers `range slice` with a counter that starts at -1 and indexes by the incremented value
		if bo, ok := v.(*ssa.BinOp); ok && bo.Op == token.ADD {
			if phi, isPhi := bo.X.(*ssa.Phi); isPhi && ivs[phi] == 1 {
				if k, isC := ConstInt(bo.Y); isC && k == 1 {
					for _, e := range phi.Edges {
						if e == ssa.Value(bo) {
							return true
						}
					}
				}
			}
		}
		return false
	}
	var out []ssa.Value
	for b := range l.Body {
		for _, in := range b.Instrs {
			ld, ok := in.(*ssa.UnOp)
			if !ok || ld.Op != token.MUL {
				continue
			}
			ia, ok := ld.X.(*ssa.IndexAddr)
			if !ok || !isIV(ia.Index) {
				continue
			}
			if isIntSliceT(ia.X.Type()) || isIntSliceSliceT(ia.X.Type()) {
				out = append(out, ld)
			}
		}
	}
	return out
}

func instrOperands(in ssa.Instruction) []ssa.Value {
	var out []ssa.Value
	for _, p := range in.Operands(nil) {
		if *p != nil {
			out = append(out, *p)
		}
	}
	return out
}

// lowerBounds lists the values used as the lower bound next to element e inside the loop: the argument just
// before e in a call, the low bound of a slice expression whose high bound is e, the other side of an
// (in)equality test with e.
func lowerBounds(l *Loop, e ssa.Value) []ssa.Value {
	var out []ssa.Value
	same := func(v ssa.Value) bool { return v == e || Equiv(v, e) }
	add := func(v ssa.Value) {
		if v == nil {
			return
		}
		for _, o := range out {
			if o == v {
				return
			}
		}
		out = append(out, v)
	}
	for b := range l.Body {
		for _, in := range b.Instrs {
			switch x := in.(type) {
			case *ssa.Call:
				ops := x.Call.Args
				for k := 1; k < len(ops); k++ {
					if same(ops[k]) && isPlainIntT(ops[k-1].Type()) {
						add(ops[k-1])
					}
				}
			case *ssa.Slice:
				if x.High != nil && same(x.High) {
					add(x.Low)
				}
			case *ssa.BinOp:
				if x.Op == token.EQL || x.Op == token.NEQ {
					if same(x.X) && isPlainIntT(x.Y.Type()) {
						add(x.Y)
					} else if same(x.Y) && isPlainIntT(x.X.Type()) {
						add(x.X)
					}
				}
			}
		}
	}
	return out
}

// definedOutside: v is a constant, parameter, or an instruction outside the loop body.
func definedOutside(l *Loop, v ssa.Value) bool {
	switch x := v.(type) {
	case *ssa.Const, *ssa.Parameter, *ssa.FreeVar, *ssa.Global:
		return true
	case ssa.Instruction:
		return !l.Body[x.Block()]
	}
	return false
}

// resolveIn follows phis of blocks inside the loop body (other than the header's) along the edges that stay
// reachable from the header when the edges in `blocked` are deleted; returns the distinct resolved values.
func resolveIn(l *Loop, v ssa.Value, reach map[*ssa.BasicBlock]bool, blocked EdgeSet, seen map[ssa.Value]bool, stop map[*ssa.Phi]ssa.Value) []ssa.Value {
	phi, ok := v.(*ssa.Phi)
	if !ok || phi.Block() == l.Header || !l.Body[phi.Block()] || seen[v] {
		return []ssa.Value{v}
	}
	if _, isInner := stop[phi]; isInner {
		return []ssa.Value{v} // the lower bound of a verified inner chain loop: a leaf
	}
	seen[v] = true
	var out []ssa.Value
	add := func(x ssa.Value) {
		for _, o := range out {
			if o == x || Equiv(o, x) {
				return
			}
		}
		out = append(out, x)
	}
	b := phi.Block()
	for i, e := range phi.Edges {
		pred := b.Preds[i]
		if !reach[pred] {
			continue
		}
		// is the edge pred->b itself deleted?
		del := false
		for si, s := range pred.Succs {
			if s == b && blocked[[2]int{pred.Index, si}] {
				del = true
			}
		}
		if del && len(pred.Succs) == 2 && pred.Succs[0] != pred.Succs[1] {
			continue
		}
		for _, r := range resolveIn(l, e, reach, blocked, seen, stop) {
			add(r)
		}
	}
	return out
}

// emptyEdges: complement of NonEmptyEdges on the same condition blocks (the edges taken only when len(x) == 0).
func emptyEdges(fn *ssa.Function, x ssa.Value) (nonEmpty, empty EdgeSet) {
	nonEmpty = NonEmptyEdges(fn, x)
	empty = EdgeSet{}
	for k := range nonEmpty {
		empty[[2]int{k[0], 1 - k[1]}] = true
	}
	return
}

// reachFromHeader: blocks of the loop reachable from its header without taking blocked edges or leaving the loop.
func reachFromHeader(l *Loop, blocked EdgeSet) map[*ssa.BasicBlock]bool {
	seen := map[*ssa.BasicBlock]bool{l.Header: true}
	stack := []*ssa.BasicBlock{l.Header}
	for len(stack) > 0 {
		b := stack[len(stack)-1]
		stack = stack[:len(stack)-1]
		for i, s := range b.Succs {
			if blocked[[2]int{b.Index, i}] || !l.Body[s] || seen[s] || s == l.Header {
				continue
			}
			seen[s] = true
			stack = append(stack, s)
		}
	}
	return seen
}

func isLastOf(v, e ssa.Value) bool {
	// an accessor that returns the last element of one of its parameters
	if c, ok := v.(*ssa.Call); ok {
		if callee := c.Call.StaticCallee(); callee != nil {
			if k, isAcc := lastAccessorParam(callee); isAcc && k < len(c.Call.Args) {
				return Equiv(c.Call.Args[k], e)
			}
		}
		return false
	}
	ld, ok := v.(*ssa.UnOp)
	if !ok || ld.Op != token.MUL {
		return false
	}
	ia, ok := ld.X.(*ssa.IndexAddr)
	if !ok {
		return false
	}
	return Equiv(ia.X, e) && isLastIndex(ia.Index, ia.X)
}

// ChainLoopsSSA finds and checks the chain loops of fn.
func ChainLoopsSSA(fn *ssa.Function) []ChainLoop2 {
	loops := Loops(fn)
	var out []ChainLoop2
	verified := map[*ssa.Phi]ssa.Value{} // offset phi of a verified level-2 loop -> the slice it walks
	initOf := map[*ssa.Phi]ssa.Value{}
	// inner loops first (smaller bodies)
	for i := 0; i < len(loops); i++ {
		for j := i + 1; j < len(loops); j++ {
			if len(loops[j].Body) < len(loops[i].Body) {
				loops[i], loops[j] = loops[j], loops[i]
			}
		}
	}
	for _, l := range loops {
		elems := loopElems(l)
		if len(elems) == 0 {
			continue
		}
		ivs := l.InductionVars()
		type cand struct {
			p     *ssa.Phi
			elem  ssa.Value
			level int
		}
		var cands []cand
		seenP := map[*ssa.Phi]bool{}
		for _, e := range elems {
			lv := 2
			if isIntSliceT(e.Type()) {
				lv = 3
			}
			for _, lb := range lowerBounds(l, e) {
				if phi, ok := lb.(*ssa.Phi); ok && phi.Block() == l.Header && ivs[phi] == 0 {
					if !seenP[phi] {
						seenP[phi] = true
						cands = append(cands, cand{phi, e, lv})
					}
					continue
				}
				if _, isC := lb.(*ssa.Const); isC && l.Header.Index == 0 {
					continue
				}
				if definedOutside(l, lb) {
					// the lower bound never changes although the loop walks the ends
					if lv == 2 || true {
						pos := e.Pos()
						out = append(out, ChainLoop2{Fn: fn, Loop: l, Elem: e, Level: lv, Pos: pos, OK: false,
							Why: "the lower bound used with the element (" + lb.String() + ") is the same in every iteration: it is never advanced, every part after the first is read from the wrong lower bound"})
					}
				}
			}
			if lv == 3 {
				// P is the initial lower bound of an inner verified chain loop over e
				for ip, xs := range verified {
					if init, ok := initOf[ip].(*ssa.Phi); ok && init.Block() == l.Header && Equiv(xs, e) && l.Body[ip.Block()] && !seenP[init] {
						seenP[init] = true
						cands = append(cands, cand{init, e, 3})
					}
				}
			}
		}
		for _, cd := range cands {
			p, elem, level := cd.p, cd.elem, cd.level
			var backs []ssa.Value
			var backPreds []*ssa.BasicBlock
			var init ssa.Value
			for i, e := range p.Edges {
				if l.Body[l.Header.Preds[i]] {
					backs = append(backs, e)
					backPreds = append(backPreds, l.Header.Preds[i])
				} else {
					init = e
				}
			}
			if len(backs) == 0 {
				continue
			}
			cl := ChainLoop2{Fn: fn, Loop: l, Offset: p, Elem: elem, Level: level, Pos: p.Pos()}
			if cl.Pos == token.NoPos {
				cl.Pos = elem.Pos()
			}
			check := func(assume string, blocked EdgeSet, accept func(v ssa.Value) (bool, string)) (bool, string) {
				reach := reachFromHeader(l, blocked)
				for bi, bv := range backs {
					pred := backPreds[bi]
					if !reach[pred] {
						continue
					}
					if len(pred.Succs) == 2 && pred.Succs[0] != pred.Succs[1] {
						del := false
						for si, sb := range pred.Succs {
							if sb == l.Header && blocked[[2]int{pred.Index, si}] {
								del = true
							}
						}
						if del {
							continue
						}
					}
					vals := resolveIn(l, bv, reach, blocked, map[ssa.Value]bool{}, verified)
					if len(vals) == 0 {
						continue // this back edge cannot be taken under the assumption
					}
					for _, v := range vals {
						if ok, why := accept(v); !ok {
							return false, assume + why
						}
					}
				}
				return true, ""
			}
			describe := func(v ssa.Value) string {
				if v == ssa.Value(p) {
					return "left unchanged"
				}
				return "set to " + v.String()
			}
			if level == 2 {
				ok, why := check("", EdgeSet{}, func(v ssa.Value) (bool, string) {
					if v == elem || Equiv(v, elem) {
						return true, ""
					}
					return false, "on some path through the body the running lower bound is " + describe(v) + " instead of the element's end: the next part is read from the wrong lower bound"
				})
				cl.OK, cl.Why = ok, why
				if ok {
					cl.Why = "the lower bound becomes the element's end on every path through the body"
					ia := elem.(*ssa.UnOp).X.(*ssa.IndexAddr)
					verified[p] = ia.X
					initOf[p] = init
				}
			} else {
				nonEmpty, empty := emptyEdges(fn, elem)
				// assumption len(e) > 0: delete the edges taken only when it is empty
				// offset = advance(offset, row): a helper that returns the row's last end for a non-empty row and the
				// offset it was handed for an empty one
				viaAdvance := func(v ssa.Value) bool {
					c, ok := v.(*ssa.Call)
					if !ok || c.Call.StaticCallee() == nil {
						return false
					}
					oi, ri, isAdv := advanceHelper(c.Call.StaticCallee())
					return isAdv && oi < len(c.Call.Args) && ri < len(c.Call.Args) && c.Call.Args[oi] == ssa.Value(p) && Equiv(c.Call.Args[ri], elem)
				}
				ok1, why1 := check("for a non-empty row ", empty, func(v ssa.Value) (bool, string) {
					if isLastOf(v, elem) || viaAdvance(v) {
						return true, ""
					}
					if ip, isPhi := v.(*ssa.Phi); isPhi {
						if xs, okv := verified[ip]; okv && Equiv(xs, elem) && initOf[ip] == ssa.Value(p) {
							return true, ""
						}
					}
					return false, "the running lower bound is " + describe(v) + " instead of the row's last end"
				})
				ok2, why2 := check("for an empty row ", nonEmpty, func(v ssa.Value) (bool, string) {
					if v == ssa.Value(p) || isLastOf(v, elem) || viaAdvance(v) {
						return true, ""
					}
					if ip, isPhi := v.(*ssa.Phi); isPhi {
						if xs, okv := verified[ip]; okv && Equiv(xs, elem) && initOf[ip] == ssa.Value(p) {
							return true, ""
						}
					}
					return false, "the running lower bound is " + describe(v) + " instead of staying where it was"
				})
				cl.OK = ok1 && ok2
				switch {
				case !ok1:
					cl.Why = why1
				case !ok2:
					cl.Why = why2
				default:
					cl.Why = "non-empty row: lower bound becomes the row's last end; empty row: unchanged"
				}
			}
			out = append(out, cl)
		}
	}
	return out
}

func (c ChainLoop2) String() string {
	return fmt.Sprintf("level-%d chain over %s", c.Level, c.Elem.Name())
}

// lastAccessorParam: fn returns, on every path, p[len(p)-1] for its parameter p (index k).
func lastAccessorParam(fn *ssa.Function) (int, bool) {
	if fn.Blocks == nil || fn.Signature.Results().Len() != 1 {
		return 0, false
	}
	k := -1
	for _, b := range fn.Blocks {
		for _, in := range b.Instrs {
			ret, ok := in.(*ssa.Return)
			if !ok {
				continue
			}
			found := -1
			for i, prm := range fn.Params {
				if _, isCall := ret.Results[0].(*ssa.Call); !isCall && isLastOf(ret.Results[0], prm) {
					found = i
				}
			}
			if found < 0 || (k >= 0 && k != found) {
				return 0, false
			}
			k = found
		}
	}
	return k, k >= 0
}

// LastAccessorParam is the exported form of lastAccessorParam.
func LastAccessorParam(fn *ssa.Function) (int, bool) { return lastAccessorParam(fn) }

// EmptyEdges returns the CFG edges taken only when len(x) == 0 (the other edge of every test NonEmptyEdges knows).
func EmptyEdges(fn *ssa.Function, x ssa.Value) EdgeSet {
	_, e := emptyEdges(fn, x)
	return e
}

// advanceHelper: fn(offset int, row []int) int returns row[len(row)-1] on every path that implies a non-empty row
// and its offset parameter on every path that implies an empty one (decided by deleting the other kind of edge).
func advanceHelper(fn *ssa.Function) (offIdx, rowIdx int, ok bool) {
	if fn.Blocks == nil || fn.Signature.Results().Len() != 1 || !isPlainIntT(fn.Signature.Results().At(0).Type()) {
		return 0, 0, false
	}
	offIdx, rowIdx = -1, -1
	for i, prm := range fn.Params {
		switch {
		case isPlainIntT(prm.Type()) && offIdx < 0:
			offIdx = i
		case isIntSliceT(prm.Type()) && rowIdx < 0:
			rowIdx = i
		}
	}
	if offIdx < 0 || rowIdx < 0 {
		return 0, 0, false
	}
	off, row := fn.Params[offIdx], fn.Params[rowIdx]
	nonEmpty, empty := emptyEdges(fn, row)
	if len(nonEmpty) == 0 {
		return 0, 0, false
	}
	check := func(blocked EdgeSet, want func(v ssa.Value) bool) bool {
		reach := Reachable(fn.Blocks[0], blocked)
		n := 0
		for _, b := range fn.Blocks {
			ret, isRet := b.Instrs[len(b.Instrs)-1].(*ssa.Return)
			if !isRet || !reach[b] {
				continue
			}
			n++
			v := ret.Results[0]
			if phi, isPhi := v.(*ssa.Phi); isPhi {
				for i, e := range phi.Edges {
					pred := phi.Block().Preds[i]
					if !reach[pred] {
						continue
					}
					taken := false
					for si, sb := range pred.Succs {
						if sb == phi.Block() && !blocked[[2]int{pred.Index, si}] {
							taken = true
						}
					}
					if taken && !want(e) {
						return false
					}
				}
				continue
			}
			if !want(v) {
				return false
			}
		}
		return n > 0
	}
	okNE := check(empty, func(v ssa.Value) bool { return isLastOf(v, row) })
	okE := check(nonEmpty, func(v ssa.Value) bool { return v == ssa.Value(off) })
	return offIdx, rowIdx, okNE && okE
}
