// Package eng holds the rule engines (templates with slots); package props fills the slots.
package eng

import (
	"fmt"
	"go/constant"
	"go/token"
	"go/types"

	"golang.org/x/tools/go/ssa"
)

// Strip looks through value-preserving conversions.
func Strip(v ssa.Value) ssa.Value {
	for {
		switch x := v.(type) {
		case *ssa.Convert:
			v = x.X
		case *ssa.ChangeType:
			v = x.X
		case *ssa.ChangeInterface:
			v = x.X
		case *ssa.MakeInterface:
			v = x.X
		default:
			return v
		}
	}
}

// StripConv looks through Convert/ChangeType only (not interface boxing).
func StripConv(v ssa.Value) ssa.Value {
	for {
		switch x := v.(type) {
		case *ssa.Convert:
			v = x.X
		case *ssa.ChangeType:
			v = x.X
		case *ssa.Call:
			// an accessor that hands back one of its arguments unchanged (a named type's `func (d digits) precision()
			// int { return int(d) }`)
			if k, ok := identityParam(x); ok {
				v = x.Call.Args[k]
				continue
			}
			return v
		default:
			return v
		}
	}
}

// identityParam: the call's static callee is a function of the caller's module that returns, on every path, its
// parameter k (possibly converted) and nothing else; returns k.
func identityParam(c *ssa.Call) (int, bool) {
	callee := c.Call.StaticCallee()
	if callee == nil || callee.Blocks == nil || c.Parent() == nil || !sameModule(callee, c.Parent()) || callee.Signature.Results().Len() != 1 {
		return 0, false
	}
	k := -1
	for _, b := range callee.Blocks {
		ret, ok := b.Instrs[len(b.Instrs)-1].(*ssa.Return)
		if !ok {
			continue
		}
		r := ret.Results[0]
		for {
			if cv, isC := r.(*ssa.Convert); isC {
				r = cv.X
				continue
			}
			if ct, isC := r.(*ssa.ChangeType); isC {
				r = ct.X
				continue
			}
			break
		}
		prm, isP := r.(*ssa.Parameter)
		if !isP {
			return 0, false
		}
		idx := -1
		for i, pp := range callee.Params {
			if pp == prm {
				idx = i
			}
		}
		if idx < 0 || (k >= 0 && k != idx) || idx >= len(c.Call.Args) {
			return 0, false
		}
		k = idx
	}
	return k, k >= 0
}

// predicateOf: the call's static callee is a one-block function of the caller's module that returns a comparison
// of its parameters and constants (`func (d digits) trims() bool { return d > 0 }`); returns that comparison with
// the call's arguments substituted.
func predicateOf(c *ssa.Call) (Cmp, bool, bool) {
	callee := c.Call.StaticCallee()
	if callee == nil || len(callee.Blocks) != 1 || c.Parent() == nil || !sameModule(callee, c.Parent()) || callee.Signature.Results().Len() != 1 {
		return Cmp{}, false, false
	}
	b := callee.Blocks[0]
	ret, ok := b.Instrs[len(b.Instrs)-1].(*ssa.Return)
	if !ok {
		return Cmp{}, false, false
	}
	inner, neg, ok := AsCmp(ret.Results[0])
	if !ok {
		return Cmp{}, false, false
	}
	subst := func(v ssa.Value) (ssa.Value, bool) {
		if _, isC := v.(*ssa.Const); isC {
			return v, true
		}
		w := v
		for {
			if cv, isC := w.(*ssa.Convert); isC {
				w = cv.X
				continue
			}
			if ct, isC := w.(*ssa.ChangeType); isC {
				w = ct.X
				continue
			}
			break
		}
		if prm, isP := w.(*ssa.Parameter); isP {
			for i, pp := range callee.Params {
				if pp == prm && i < len(c.Call.Args) {
					return c.Call.Args[i], true
				}
			}
		}
		// a predicate method without arguments (`func (c *calc) hasArea() bool { return math.Abs(c.sum) > 0 }`): the
		// operand is a value of the callee computed from its receiver; it is handed back as it is (consumers look at
		// its shape - a call, a field load - not at its identity with values of the caller)
		if len(callee.Params) == 1 && callee.Signature.Recv() != nil {
			return v, true
		}
		return nil, false
	}
	x, okx := subst(inner.X)
	y, oky := subst(inner.Y)
	if !okx || !oky {
		return Cmp{}, false, false
	}
	return Cmp{Op: inner.Op, X: x, Y: y}, neg, true
}

// ConstInt returns the integer value of a constant.
func ConstInt(v ssa.Value) (int64, bool) {
	c, ok := StripConv(v).(*ssa.Const)
	if !ok || c.Value == nil {
		return 0, false
	}
	if c.Value.Kind() != constant.Int {
		return 0, false
	}
	n, exact := constant.Int64Val(c.Value)
	return n, exact
}

// IsNilConst reports whether v is the nil constant.
func IsNilConst(v ssa.Value) bool {
	c, ok := v.(*ssa.Const)
	return ok && c.Value == nil
}

// EdgeSet is a set of CFG edges (block index, successor index).
type EdgeSet map[[2]int]bool

// Reachable returns the blocks reachable from `from` without crossing blocked edges.
func Reachable(from *ssa.BasicBlock, blocked EdgeSet) map[*ssa.BasicBlock]bool {
	seen := map[*ssa.BasicBlock]bool{from: true}
	work := []*ssa.BasicBlock{from}
	for len(work) > 0 {
		b := work[len(work)-1]
		work = work[:len(work)-1]
		for i, s := range b.Succs {
			if blocked[[2]int{b.Index, i}] {
				continue
			}
			if !seen[s] {
				seen[s] = true
				work = append(work, s)
			}
		}
	}
	return seen
}

// ReachableFromEdge returns blocks reachable starting by taking edge (b, succ i).
func ReachableFromEdge(b *ssa.BasicBlock, i int, blocked EdgeSet) map[*ssa.BasicBlock]bool {
	return Reachable(b.Succs[i], blocked)
}

// BlockIf returns the terminating If of b, or nil.
func BlockIf(b *ssa.BasicBlock) *ssa.If {
	if len(b.Instrs) == 0 {
		return nil
	}
	x, _ := b.Instrs[len(b.Instrs)-1].(*ssa.If)
	return x
}

// Cmp describes a comparison condition after normalisation.
type Cmp struct {
	Op   token.Token
	X, Y ssa.Value
}

// AsCmp decodes a condition value into a comparison, looking through `!`.
// negate reports whether the comparison's truth is the negation of cond.
func AsCmp(cond ssa.Value) (c Cmp, negate bool, ok bool) {
	for {
		switch x := cond.(type) {
		case *ssa.UnOp:
			if x.Op == token.NOT {
				negate = !negate
				cond = x.X
				continue
			}
			return Cmp{}, false, false
		case *ssa.BinOp:
			switch x.Op {
			case token.EQL, token.NEQ, token.LSS, token.LEQ, token.GTR, token.GEQ:
				return Cmp{Op: x.Op, X: x.X, Y: x.Y}, negate, true
			}
			return Cmp{}, false, false
		case *ssa.Call:
			if c, neg2, ok := predicateOf(x); ok {
				if neg2 {
					negate = !negate
				}
				return c, negate, true
			}
			return Cmp{}, false, false
		default:
			return Cmp{}, false, false
		}
	}
}

// NegateOp returns the comparison operator that is true exactly when op is false.
func NegateOp(op token.Token) token.Token {
	switch op {
	case token.EQL:
		return token.NEQ
	case token.NEQ:
		return token.EQL
	case token.LSS:
		return token.GEQ
	case token.GEQ:
		return token.LSS
	case token.GTR:
		return token.LEQ
	case token.LEQ:
		return token.GTR
	}
	return op
}

// SwapOp mirrors a comparison (x op y  ==  y SwapOp(op) x).
func SwapOp(op token.Token) token.Token {
	switch op {
	case token.LSS:
		return token.GTR
	case token.GTR:
		return token.LSS
	case token.LEQ:
		return token.GEQ
	case token.GEQ:
		return token.LEQ
	}
	return op
}

// EdgeCmp returns the comparison that holds when If-block b is left through successor i.
func EdgeCmp(b *ssa.BasicBlock, i int) (Cmp, bool) {
	ifi := BlockIf(b)
	if ifi == nil {
		return Cmp{}, false
	}
	c, neg, ok := AsCmp(ifi.Cond)
	if !ok {
		return Cmp{}, false
	}
	if neg {
		c.Op = NegateOp(c.Op)
	}
	if i == 1 { // false edge
		c.Op = NegateOp(c.Op)
	}
	return c, true
}

// StaticCallee returns the statically known callee of a call.
func StaticCallee(c ssa.CallInstruction) *ssa.Function {
	return c.Common().StaticCallee()
}

// CalleeObj returns the types.Func of a call's callee: static function, method value or interface method.
func CalleeObj(c ssa.CallInstruction) *types.Func {
	cc := c.Common()
	if cc.IsInvoke() {
		return cc.Method
	}
	if f := cc.StaticCallee(); f != nil {
		if o, ok := f.Object().(*types.Func); ok {
			return o
		}
	}
	return nil
}

// IsCallTo reports whether c statically calls pkgpath.name (name may be "(*T).M"-less: just method or func name).
func IsCallTo(c ssa.CallInstruction, pkgPath, name string) bool {
	o := CalleeObj(c)
	if o == nil || o.Pkg() == nil {
		return false
	}
	return o.Pkg().Path() == pkgPath && o.Name() == name
}

// Calls returns all call instructions (Call, Go, Defer) of fn.
func Calls(fn *ssa.Function) []ssa.CallInstruction {
	var out []ssa.CallInstruction
	for _, b := range fn.Blocks {
		for _, in := range b.Instrs {
			if c, ok := in.(ssa.CallInstruction); ok {
				out = append(out, c)
			}
		}
	}
	return out
}

// ErrorType is the universe error type.
var ErrorType = types.Universe.Lookup("error").Type()

// IsErrorType reports whether t is `error`.
func IsErrorType(t types.Type) bool { return types.Identical(t, ErrorType) }

// Referrers returns the referrers of v (nil-safe).
func Referrers(v ssa.Value) []ssa.Instruction {
	r := v.Referrers()
	if r == nil {
		return nil
	}
	return *r
}

// InstrBlockIndex returns the index of instr in its block.
func InstrIndex(in ssa.Instruction) int {
	for i, x := range in.Block().Instrs {
		if x == in {
			return i
		}
	}
	return -1
}

// BuiltinName returns the builtin called by c, or "".
func BuiltinName(c ssa.CallInstruction) string {
	if b, ok := c.Common().Value.(*ssa.Builtin); ok {
		return b.Name()
	}
	return ""
}

// ReachableCorr is Reachable with one refinement: two tests of the same comparison (same operator up to negation, the
// same SSA operands) agree as long as neither operand has been redefined in between. It walks (block, what is known)
// states: taking an edge of `x op y` records its truth; a later test of the same comparison is followed only on the
// consistent edge; entering a block that defines x or y (a loop header's phi) forgets what was known about it. This
// decides `for i >= 0 && len(rows[i]) == 0 { i-- }; if i >= 0 { use rows[i] }`: the exit taken because i < 0 cannot
// continue into the i >= 0 branch.
func ReachableCorr(from *ssa.BasicBlock, blocked EdgeSet) map[*ssa.BasicBlock]bool {
	type fact struct {
		x, y ssa.Value
		op   token.Token // normalised: one of EQL, LSS, LEQ (with x,y possibly swapped), truth in val
		val  bool
	}
	norm := func(c Cmp) (fact, bool) {
		x, y := StripConv(c.X), StripConv(c.Y)
		switch c.Op {
		case token.EQL:
			return fact{x, y, token.EQL, true}, true
		case token.NEQ:
			return fact{x, y, token.EQL, false}, true
		case token.LSS:
			return fact{x, y, token.LSS, true}, true
		case token.GEQ:
			return fact{x, y, token.LSS, false}, true
		case token.GTR:
			return fact{y, x, token.LSS, true}, true
		case token.LEQ:
			return fact{y, x, token.LSS, false}, true
		}
		return fact{}, false
	}
	same := func(a, b ssa.Value) bool {
		if a == b {
			return true
		}
		ca, oka := a.(*ssa.Const)
		cb, okb := b.(*ssa.Const)
		return oka && okb && ca.Value != nil && cb.Value != nil && constant.Compare(ca.Value, token.EQL, cb.Value)
	}
	defines := func(b *ssa.BasicBlock, v ssa.Value) bool {
		in, ok := v.(ssa.Instruction)
		return ok && in.Block() == b
	}
	type state struct {
		b     *ssa.BasicBlock
		facts []fact
	}
	key := func(st state) string {
		s := fmt.Sprint(st.b.Index)
		for _, f := range st.facts {
			s += fmt.Sprintf("|%p %p %v %v", f.x, f.y, f.op, f.val)
		}
		return s
	}
	seenState := map[string]bool{}
	seen := map[*ssa.BasicBlock]bool{from: true}
	work := []state{{from, nil}}
	for len(work) > 0 && len(seenState) < 20000 {
		st := work[len(work)-1]
		work = work[:len(work)-1]
		if seenState[key(st)] {
			continue
		}
		seenState[key(st)] = true
		b := st.b
		// forget facts about values this block defines
		var facts []fact
		for _, f := range st.facts {
			if !defines(b, f.x) && !defines(b, f.y) {
				facts = append(facts, f)
			}
		}
		var cur *fact
		if len(b.Succs) == 2 {
			if c, ok := EdgeCmp(b, 0); ok {
				if f, ok2 := norm(c); ok2 {
					cur = &f
				}
			}
		}
		for i, s := range b.Succs {
			if blocked[[2]int{b.Index, i}] {
				continue
			}
			nf := facts
			if cur != nil {
				want := cur.val
				if i == 1 {
					want = !want
				}
				contradicted := false
				for _, f := range facts {
					if f.op == cur.op && same(f.x, cur.x) && same(f.y, cur.y) && f.val != want {
						contradicted = true
					}
				}
				if contradicted {
					continue
				}
				if len(facts) < 4 && !defines(b, cur.x) || len(facts) < 4 {
					nf = append(append([]fact{}, facts...), fact{cur.x, cur.y, cur.op, want})
				}
			}
			seen[s] = true
			work = append(work, state{s, nf})
		}
	}
	return seen
}

// ReachablePhi is Reachable with one refinement: a block whose branch condition is a phi of the block itself
// (`a && b` / `a || b` evaluated as a value: the short-circuit edge carries the constant false / true) is left only
// through the successor the constant selects when it is entered from that predecessor.
func ReachablePhi(from *ssa.BasicBlock, blocked EdgeSet) map[*ssa.BasicBlock]bool {
	type state struct {
		b    *ssa.BasicBlock
		pred *ssa.BasicBlock
	}
	seen := map[*ssa.BasicBlock]bool{from: true}
	seenState := map[state]bool{}
	work := []state{{from, nil}}
	for len(work) > 0 {
		st := work[len(work)-1]
		work = work[:len(work)-1]
		if seenState[st] {
			continue
		}
		seenState[st] = true
		b := st.b
		only := -1
		if ifi := BlockIf(b); ifi != nil && st.pred != nil {
			cond, neg := ifi.Cond, false
			for {
				u, ok := cond.(*ssa.UnOp)
				if !ok || u.Op != token.NOT {
					break
				}
				cond, neg = u.X, !neg
			}
			if phi, ok := cond.(*ssa.Phi); ok && phi.Block() == b {
				for k, p := range b.Preds {
					if p != st.pred || k >= len(phi.Edges) {
						continue
					}
					if c, isC := phi.Edges[k].(*ssa.Const); isC && c.Value != nil && c.Value.Kind() == constant.Bool {
						v := constant.BoolVal(c.Value) != neg
						if v {
							only = 0
						} else {
							only = 1
						}
					}
				}
			}
		}
		for i, s := range b.Succs {
			if blocked[[2]int{b.Index, i}] || (only >= 0 && i != only) {
				continue
			}
			seen[s] = true
			work = append(work, state{s, b})
		}
	}
	return seen
}
