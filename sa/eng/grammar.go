package eng

// A small reader for the goyacc subset used by wkt.y, and GENSYNC: regenerate
// the parser from the grammar and compare it, AST-normalised, with the committed one.

import (
	"bytes"
	"fmt"
	"go/ast"
	"go/parser"
	"go/printer"
	"go/token"
	"os"
	"os/exec"
	"path/filepath"
	"regexp"
	"sort"
	"strings"
)

// Alt is one alternative of a production.
type Alt struct {
	Syms   []string
	Action string
	Calls  []LexCall // lexer helper calls in the action, in order
	Line   int
}

// LexCall is a call wktlex.(*wktLex).Name(Args) in an action.
type LexCall struct {
	Name string
	Args string
}

// Grammar maps nonterminals to their alternatives.
type Grammar struct {
	Rules  map[string][]Alt
	Order  []string
	Tokens map[string]bool
}

var lexCallRe = regexp.MustCompile(`wktlex\.\(\*wktLex\)\.(\w+)\(([^()]*)\)`)

// ParseYacc reads the rules section of a yacc file.
func ParseYacc(path string) (*Grammar, error) {
	b, err := os.ReadFile(path)
	if err != nil {
		return nil, err
	}
	src := string(b)
	parts := strings.SplitN(src, "\n%%", 3)
	if len(parts) < 2 {
		return nil, fmt.Errorf("%s: no rules section", path)
	}
	g := &Grammar{Rules: map[string][]Alt{}, Tokens: map[string]bool{}}
	for _, line := range strings.Split(parts[0], "\n") {
		f := strings.Fields(line)
		if len(f) > 1 && f[0] == "%token" {
			for _, t := range f[1:] {
				if !strings.HasPrefix(t, "<") {
					g.Tokens[t] = true
				}
			}
		}
	}
	rules := parts[1]
	baseLine := strings.Count(parts[0], "\n") + 2
	i, n := 0, len(rules)
	line := baseLine
	var cur string
	var alt *Alt
	flush := func() {
		if cur != "" && alt != nil {
			alt.Calls = nil
			for _, m := range lexCallRe.FindAllStringSubmatch(alt.Action, -1) {
				alt.Calls = append(alt.Calls, LexCall{m[1], strings.TrimSpace(m[2])})
			}
			g.Rules[cur] = append(g.Rules[cur], *alt)
		}
		alt = nil
	}
	for i < n {
		c := rules[i]
		switch {
		case c == '\n':
			line++
			i++
		case c == ' ' || c == '\t' || c == '\r':
			i++
		case c == '/' && i+1 < n && rules[i+1] == '/':
			for i < n && rules[i] != '\n' {
				i++
			}
		case c == '{':
			depth, j := 0, i
			for j < n {
				if rules[j] == '{' {
					depth++
				} else if rules[j] == '}' {
					depth--
					if depth == 0 {
						break
					}
				} else if rules[j] == '\n' {
					line++
				}
				j++
			}
			if alt == nil {
				alt = &Alt{Line: line}
			}
			alt.Action += rules[i : j+1]
			i = j + 1
		case c == '|':
			flush()
			alt = &Alt{Line: line}
			i++
		case c == ';':
			flush()
			cur = ""
			i++
		case c == '\'':
			j := i + 1
			for j < n && rules[j] != '\'' {
				j++
			}
			if alt == nil {
				alt = &Alt{Line: line}
			}
			alt.Syms = append(alt.Syms, rules[i:j+1])
			i = j + 1
		default:
			j := i
			for j < n && (rules[j] == '_' || rules[j] >= 'a' && rules[j] <= 'z' || rules[j] >= 'A' && rules[j] <= 'Z' || rules[j] >= '0' && rules[j] <= '9') {
				j++
			}
			if j == i {
				return nil, fmt.Errorf("%s:%d: unexpected character %q", path, line, c)
			}
			word := rules[i:j]
			// lookahead for ':' => new rule head
			k := j
			for k < n && (rules[k] == ' ' || rules[k] == '\t') {
				k++
			}
			if k < n && rules[k] == ':' {
				flush()
				cur = word
				if _, ok := g.Rules[cur]; !ok {
					g.Order = append(g.Order, cur)
					g.Rules[cur] = nil
				}
				alt = &Alt{Line: line}
				i = k + 1
			} else {
				if alt == nil {
					alt = &Alt{Line: line}
				}
				alt.Syms = append(alt.Syms, word)
				i = j
			}
		}
	}
	flush()
	return g, nil
}

// Users returns the nonterminals that mention sym on a right-hand side.
func (g *Grammar) Users(sym string) []string {
	var out []string
	for _, name := range g.Order {
		for _, a := range g.Rules[name] {
			for _, s := range a.Syms {
				if s == sym {
					out = append(out, name)
				}
			}
		}
	}
	sort.Strings(out)
	var uniq []string
	for i, s := range out {
		if i == 0 || out[i-1] != s {
			uniq = append(uniq, s)
		}
	}
	return uniq
}

// HasCall reports whether an alternative's action calls the lexer helper.
func (a Alt) HasCall(name string) bool {
	for _, c := range a.Calls {
		if c.Name == name {
			return true
		}
	}
	return false
}

// normalisedDecls renders the top-level declarations of a Go file keyed by name.
func normalisedDecls(path string) (map[string]string, error) {
	fset := token.NewFileSet()
	f, err := parser.ParseFile(fset, path, nil, 0)
	if err != nil {
		return nil, err
	}
	out := map[string]string{}
	render := func(n interface{}) string {
		var buf bytes.Buffer
		printer.Fprint(&buf, token.NewFileSet(), n)
		return strings.Join(strings.Fields(buf.String()), " ")
	}
	for _, d := range f.Decls {
		switch x := d.(type) {
		case *ast.FuncDecl:
			name := x.Name.Name
			if x.Recv != nil && len(x.Recv.List) > 0 {
				name = render(x.Recv.List[0].Type) + "." + name
			}
			x.Doc = nil
			out["func "+name] = render(x.Type) + " " + render(x.Body)
		case *ast.GenDecl:
			for _, s := range x.Specs {
				switch sp := s.(type) {
				case *ast.ValueSpec:
					for i, n := range sp.Names {
						v := ""
						if i < len(sp.Values) {
							v = render(sp.Values[i])
						}
						t := ""
						if sp.Type != nil {
							t = render(sp.Type)
						}
						out[x.Tok.String()+" "+n.Name] = t + " = " + v
					}
				case *ast.TypeSpec:
					out["type "+sp.Name.Name] = render(sp.Type)
				case *ast.ImportSpec:
					out["import "+sp.Path.Value] = ""
				}
			}
		}
	}
	return out, nil
}

// GenSync regenerates the parser with goyacc and compares it with the committed file.
// It returns the names of the declarations that differ.
func GenSync(goyacc, yaccFile, genFile, prefix string) ([]string, int, error) {
	tmp, err := os.MkdirTemp("", "verifsa-gensync-")
	if err != nil {
		return nil, 0, err
	}
	defer os.RemoveAll(tmp)
	src, err := os.ReadFile(yaccFile)
	if err != nil {
		return nil, 0, err
	}
	if err := os.WriteFile(filepath.Join(tmp, "in.y"), src, 0o644); err != nil {
		return nil, 0, err
	}
	cmd := exec.Command(goyacc, "-l", "-o", "out.go", "-p", prefix, "in.y")
	cmd.Dir = tmp
	if outb, err := cmd.CombinedOutput(); err != nil {
		return nil, 0, fmt.Errorf("goyacc: %v: %s", err, outb)
	}
	gen, err := os.ReadFile(filepath.Join(tmp, "out.go"))
	if err != nil {
		return nil, 0, err
	}
	// the repository's go:generate line also flips the verbose-error switch
	gen = bytes.ReplaceAll(gen, []byte(prefix+"ErrorVerbose = false"), []byte(prefix+"ErrorVerbose = true"))
	if err := os.WriteFile(filepath.Join(tmp, "out.go"), gen, 0o644); err != nil {
		return nil, 0, err
	}
	a, err := normalisedDecls(filepath.Join(tmp, "out.go"))
	if err != nil {
		return nil, 0, err
	}
	b, err := normalisedDecls(genFile)
	if err != nil {
		return nil, 0, err
	}
	var diff []string
	for k, v := range a {
		if bv, ok := b[k]; !ok {
			diff = append(diff, k+" (missing in committed file)")
		} else if bv != v {
			diff = append(diff, k)
		}
	}
	for k := range b {
		if _, ok := a[k]; !ok {
			diff = append(diff, k+" (not produced by the grammar)")
		}
	}
	sort.Strings(diff)
	return diff, len(a), nil
}
