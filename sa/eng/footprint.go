package eng

import (
	"fmt"
	"go/token"

	"golang.org/x/tools/go/ssa"
)

// lin decomposes v as base + m*stride + c (base may be nil = 0).
type lin struct {
	Base ssa.Value
	M, C int64
	OK   bool
}

func (si *StrideInfo) isStrideV(v ssa.Value) bool {
	if sv, ok := si.Val[v]; ok {
		return !sv.Top && !sv.Bot && !sv.Al && !sv.K && !sv.E && sv.C == 0 && sv.M == 1
	}
	if p, ok := v.(*ssa.Parameter); ok {
		return p.Name() == "stride"
	}
	return false
}

func (si *StrideInfo) linOf(v ssa.Value, depth int) lin {
	if depth > 12 {
		return lin{Base: v, OK: true}
	}
	if n, ok := ConstInt(v); ok {
		return lin{C: n, OK: true}
	}
	if si.isStrideV(v) {
		return lin{M: 1, OK: true}
	}
	if sv, ok := si.Val[v]; ok && sv.K && !sv.Top && !sv.Al && sv.M == 0 && sv.C == 0 {
		return lin{OK: true} // an ordinate slot k in [0,stride): stays inside the coordinate
	}
	switch x := v.(type) {
	case *ssa.Convert:
		return si.linOf(x.X, depth+1)
	case *ssa.Phi:
		// a lagging cursor: `for prev, i := a, a+stride; ...; prev, i = i, i+stride` keeps prev == i - stride
		if len(x.Edges) == 2 {
			for _, in := range x.Block().Instrs {
				sib, ok := in.(*ssa.Phi)
				if !ok {
					break
				}
				if sib == x || len(sib.Edges) != 2 {
					continue
				}
				lag := true
				for k := range sib.Edges {
					if bo, isStep := sib.Edges[k].(*ssa.BinOp); isStep && bo.Op == token.ADD && bo.X == ssa.Value(sib) && si.isStrideV(bo.Y) {
						if x.Edges[k] != ssa.Value(sib) {
							lag = false
						}
						continue
					}
					li, ls := si.linOf(x.Edges[k], depth+1), si.linOf(sib.Edges[k], depth+1)
					if li.Base != ls.Base || li.M != ls.M-1 || li.C != ls.C {
						lag = false
					}
				}
				if lag {
					return lin{Base: sib, M: -1, OK: true}
				}
			}
		}
	case *ssa.BinOp:
		a, b := si.linOf(x.X, depth+1), si.linOf(x.Y, depth+1)
		switch x.Op {
		case token.ADD:
			if a.Base != nil && b.Base != nil {
				return lin{Base: v, OK: true}
			}
			base := a.Base
			if base == nil {
				base = b.Base
			}
			return lin{Base: base, M: a.M + b.M, C: a.C + b.C, OK: true}
		case token.SUB:
			if b.Base != nil {
				return lin{Base: v, OK: true}
			}
			return lin{Base: a.Base, M: a.M - b.M, C: a.C - b.C, OK: true}
		case token.MUL:
			if a.Base == nil && b.Base == nil {
				if a.M == 0 && b.C == 0 {
					return lin{M: a.C * b.M, OK: true}
				}
				if b.M == 0 && a.C == 0 {
					return lin{M: b.C * a.M, OK: true}
				}
			}
		}
	}
	return lin{Base: v, OK: true}
}

// Footprint describes the coordinates touched by a stride-stepped loop over a flat array.
type Footprint struct {
	Phi        *ssa.Phi
	InitBase   ssa.Value
	A          int64 // init = InitBase + A*stride
	BoundBase  ssa.Value
	B          int64       // bound = BoundBase + B*stride
	Cmp        token.Token // LSS or LEQ
	MinQ, MaxQ int64       // coordinates touched relative to the loop variable
	Sites      int
	OK         bool
	Why        string
}

// LoopFootprints finds the loops `for p := init; p < bound; p += stride` of fn and
// computes which coordinates their indices on flat arrays touch.
func (si *StrideInfo) LoopFootprints() []Footprint {
	var out []Footprint
	fn := si.Fn
	for _, b := range fn.Blocks {
		for _, in := range b.Instrs {
			phi, ok := in.(*ssa.Phi)
			if !ok || !isIntT(phi.Type()) || len(phi.Edges) != 2 {
				continue
			}
			var init ssa.Value
			stepOK := false
			for i, e := range phi.Edges {
				if bo, ok := e.(*ssa.BinOp); ok && bo.Op == token.ADD && bo.X == phi && si.isStrideV(bo.Y) {
					stepOK = true
					init = phi.Edges[1-i]
				}
			}
			if !stepOK {
				continue
			}
			fp := Footprint{Phi: phi}
			il := si.linOf(init, 0)
			fp.InitBase, fp.A = il.Base, il.M
			if il.C != 0 {
				fp.Why = fmt.Sprintf("loop starts %d ordinates off a coordinate boundary", il.C)
			}
			// loop condition: compare on phi (or on phi+stride for rotated loops)
			found := false
			// the compared value: the loop variable, or the loop variable plus a multiple of the stride
			// (`i+stride <= len(line)` is `i <= len(line)-stride`)
			cands := []ssa.Value{phi}
			shift := map[ssa.Value]int64{phi: 0}
			for _, rf := range Referrers(phi) {
				if add, ok := rf.(*ssa.BinOp); ok && add.Op == token.ADD {
					if l := si.linOf(add, 0); l.OK && l.Base == ssa.Value(phi) && l.C == 0 && l.M != 0 {
						isStep := false
						for _, e := range phi.Edges {
							isStep = isStep || e == ssa.Value(add)
						}
						if !isStep {
							cands = append(cands, add)
							shift[add] = l.M
						}
					}
				}
			}
			for _, cand := range cands {
				for _, rf := range Referrers(cand) {
					bo, ok := rf.(*ssa.BinOp)
					if !ok || (bo.Op != token.LSS && bo.Op != token.LEQ) || bo.X != cand {
						continue
					}
					isCond := false
					for _, r2 := range Referrers(bo) {
						if _, ok := r2.(*ssa.If); ok {
							isCond = true
						}
					}
					if !isCond {
						continue
					}
					bl := si.linOf(bo.Y, 0)
					if bl.C != 0 {
						fp.Why = fmt.Sprintf("loop bound is %d ordinates off a coordinate boundary", bl.C)
					}
					fp.BoundBase, fp.B, fp.Cmp = bl.Base, bl.M-shift[cand], bo.Op
					found = true
				}
			}
			if !found {
				continue
			}
			first := true
			visit := func(idx ssa.Value) {
				l := si.linOf(idx, 0)
				if l.Base != ssa.Value(phi) {
					return
				}
				fp.Sites++
				if first || l.M < fp.MinQ {
					fp.MinQ = l.M
				}
				if first || l.M > fp.MaxQ {
					fp.MaxQ = l.M
				}
				first = false
			}
			for _, b2 := range fn.Blocks {
				for _, in2 := range b2.Instrs {
					switch x := in2.(type) {
					case *ssa.IndexAddr:
						if isFlatArray(x.X.Type()) {
							visit(x.Index)
						}
					case *ssa.Slice:
						if isFlatArray(x.X.Type()) && x.Low != nil {
							visit(x.Low)
						}
					case ssa.CallInstruction:
						// offsets handed to other kernels (internal.Equal(ring, i, ring, j))
						for _, target := range CallbackTargets(x) {
							// the loop body is a callback: its indices relative to the offsets handed to it
							csi := si.All[target]
							if csi == nil {
								continue
							}
							for i, prm := range target.Params {
								if i >= len(x.Common().Args) || !isIntT(prm.Type()) {
									continue
								}
								al := si.linOf(x.Common().Args[i], 0)
								if al.Base != ssa.Value(phi) {
									continue
								}
								for _, m := range csi.paramOffsets(prm) {
									fp.Sites++
									q := al.M + m
									if first || q < fp.MinQ {
										fp.MinQ = q
									}
									if first || q > fp.MaxQ {
										fp.MaxQ = q
									}
									first = false
								}
							}
						}
						if callee := x.Common().StaticCallee(); callee != nil {
							for i, prm := range callee.Params {
								if i < len(x.Common().Args) && isIntT(prm.Type()) {
									csi := si.All[callee]
									if alignedParamName(prm.Name()) || (csi != nil && csi.CoordBaseParam(prm)) {
										visit(x.Common().Args[i])
										// the coordinates the helper touches relative to the offset it is handed
										// (addSegment(line, i) reads the points at i and i+stride)
										if csi != nil && !alignedParamName(prm.Name()) {
											if al := si.linOf(x.Common().Args[i], 0); al.Base == ssa.Value(phi) {
												for _, m := range csi.paramOffsets(prm) {
													q := al.M + m
													if q < fp.MinQ {
														fp.MinQ = q
													}
													if q > fp.MaxQ {
														fp.MaxQ = q
													}
												}
											}
										}
									}
								}
							}
						}
					}
				}
			}
			if fp.Sites == 0 {
				continue
			}
			if fp.Why == "" {
				lastOff := fp.B + fp.MaxQ
				want := int64(0)
				if fp.Cmp == token.LEQ {
					want = -1
				}
				switch {
				case fp.A+fp.MinQ != 0:
					fp.Why = fmt.Sprintf("first coordinate touched is %+d coordinates from the start of the range (init %+d*stride, lowest index offset %+d*stride): a leading segment/point is skipped or read before the range", fp.A+fp.MinQ, fp.A, fp.MinQ)
				case lastOff != want:
					fp.Why = fmt.Sprintf("last coordinate touched is %+d coordinates from the end of the range (bound %+d*stride with %s, highest index offset %+d*stride): the last segment/point is dropped or read past the end", lastOff-want, fp.B, fp.Cmp, fp.MaxQ)
				default:
					fp.OK = true
				}
			}
			out = append(out, fp)
		}
	}
	return out
}

// paramOffsets: the stride multiples q of the flat-array indices prm + q*stride (+c) in the function.
func (si *StrideInfo) paramOffsets(prm *ssa.Parameter) []int64 {
	var out []int64
	visit := func(idx ssa.Value) {
		if l := si.linOf(idx, 0); l.OK && l.Base == ssa.Value(prm) {
			out = append(out, l.M)
		}
	}
	for _, b := range si.Fn.Blocks {
		for _, in := range b.Instrs {
			switch x := in.(type) {
			case *ssa.IndexAddr:
				if isFlatArray(x.X.Type()) {
					visit(x.Index)
				}
			case *ssa.Slice:
				if isFlatArray(x.X.Type()) && x.Low != nil {
					visit(x.Low)
				}
			case ssa.CallInstruction:
				if callee := x.Common().StaticCallee(); callee != nil {
					for i, p := range callee.Params {
						if i < len(x.Common().Args) && isIntT(p.Type()) {
							csi := si.All[callee]
							if alignedParamName(p.Name()) || (csi != nil && csi.CoordBaseParam(p)) {
								visit(x.Common().Args[i])
							}
						}
					}
				}
			}
		}
	}
	return out
}

// SpanOf returns the exact span hi-lo of a slice expression as m*stride + c when both bounds share a base.
func (si *StrideInfo) SpanOf(sl *ssa.Slice) (m, c int64, ok bool) {
	if sl.High == nil {
		return 0, 0, false
	}
	hi := si.linOf(sl.High, 0)
	lo := lin{OK: true}
	if sl.Low != nil {
		lo = si.linOf(sl.Low, 0)
	}
	if hi.Base != lo.Base {
		return 0, 0, false
	}
	return hi.M - lo.M, hi.C - lo.C, true
}

// LinOf is the exported form of linOf: v = base + m*stride + c.
func (si *StrideInfo) LinOf(v ssa.Value) (base ssa.Value, m, c int64, ok bool) {
	l := si.linOf(v, 0)
	return l.Base, l.M, l.C, l.OK
}
