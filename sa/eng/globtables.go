package eng

import (
	"go/constant"
	"go/token"
	"go/types"
	"sync"

	"golang.org/x/tools/go/ssa"
)

// Package-level look-up tables for CONSTEVAL. A package variable initialised by an array, slice or map literal
// whose keys and elements are constants, and that no function of its package other than the initialiser writes
// (no store through it, no map update, no address handed out), is a table: an index or look-up with a constant
// key folds to the element, a map miss folds to the zero value (ok=false). Everything else stays Top.

type table struct {
	elems map[string]CVal // key: ExactString of the constant key
	n     int64           // length for arrays and slices, -1 for maps
	zero  CVal
}

var (
	tableMu    sync.Mutex
	tableCache = map[*ssa.Global]*table{}
	dirtyCache = map[*ssa.Package]map[*ssa.Global]bool{}
)

// tableOfAddr resolves the operand of an IndexAddr/Lookup to a table: the global itself (array) or a load of it.
func tableOfAddr(v ssa.Value) *table {
	switch x := v.(type) {
	case *ssa.Global:
		return tableOf(x)
	case *ssa.UnOp:
		if g, ok := x.X.(*ssa.Global); ok && x.Op == token.MUL {
			return tableOf(g)
		}
	}
	return nil
}

func tableOf(g *ssa.Global) *table {
	tableMu.Lock()
	defer tableMu.Unlock()
	if t, ok := tableCache[g]; ok {
		return t
	}
	t := buildTable(g)
	tableCache[g] = t
	return t
}

func buildTable(g *ssa.Global) *table {
	if g.Pkg == nil {
		return nil
	}
	initFn := g.Pkg.Func("init")
	if initFn == nil || dirtyGlobals(g.Pkg)[g] {
		return nil
	}
	// the one store `*g = v` in init
	var src ssa.Value
	for _, b := range initFn.Blocks {
		for _, in := range b.Instrs {
			if st, ok := in.(*ssa.Store); ok && st.Addr == ssa.Value(g) {
				if src != nil {
					return nil
				}
				src = st.Val
			}
		}
	}
	t := &table{elems: map[string]CVal{}, n: -1}
	cv := func(v ssa.Value) CVal {
		switch x := v.(type) {
		case *ssa.Const:
			return constOf(x)
		case *ssa.MakeInterface:
			return DynV(x.X.Type())
		}
		return Top
	}
	// element stores through &base[k]
	collect := func(base ssa.Value) bool {
		refs := base.Referrers()
		if refs == nil {
			return false
		}
		for _, r := range *refs {
			ia, ok := r.(*ssa.IndexAddr)
			if !ok {
				continue
			}
			k, isC := ia.Index.(*ssa.Const)
			if !isC || k.Value == nil {
				return false
			}
			val := Top
			if irefs := ia.Referrers(); irefs != nil {
				for _, s := range *irefs {
					if st, isS := s.(*ssa.Store); isS && st.Addr == ssa.Value(ia) {
						val = cv(st.Val)
					}
				}
			}
			t.elems[k.Value.ExactString()] = val
		}
		return true
	}
	if src == nil {
		// array literal built in place: &g[k] = v in the initialiser
		at, ok := g.Type().Underlying().(*types.Pointer).Elem().Underlying().(*types.Array)
		if !ok {
			return nil
		}
		for _, b := range initFn.Blocks {
			for _, in := range b.Instrs {
				ia, isIA := in.(*ssa.IndexAddr)
				if !isIA || ia.X != ssa.Value(g) {
					continue
				}
				k, isC := ia.Index.(*ssa.Const)
				if !isC || k.Value == nil {
					return nil
				}
				val := Top
				if irefs := ia.Referrers(); irefs != nil {
					for _, s := range *irefs {
						if st, isS := s.(*ssa.Store); isS && st.Addr == ssa.Value(ia) {
							val = cv(st.Val)
						}
					}
				}
				t.elems[k.Value.ExactString()] = val
			}
		}
		t.n, t.zero = at.Len(), zeroCV(at.Elem())
		return t
	}
	switch x := src.(type) {
	case *ssa.UnOp: // array literal: *local
		a, ok := x.X.(*ssa.Alloc)
		if !ok || x.Op != token.MUL {
			return nil
		}
		at, ok := a.Type().Underlying().(*types.Pointer).Elem().Underlying().(*types.Array)
		if !ok || !collect(a) {
			return nil
		}
		t.n, t.zero = at.Len(), zeroCV(at.Elem())
	case *ssa.Slice: // slice literal: new [n]T ... [:]
		a, ok := x.X.(*ssa.Alloc)
		if !ok || x.Low != nil || x.High != nil {
			return nil
		}
		at, ok := a.Type().Underlying().(*types.Pointer).Elem().Underlying().(*types.Array)
		if !ok || !collect(a) {
			return nil
		}
		t.n, t.zero = at.Len(), zeroCV(at.Elem())
	case *ssa.MakeMap:
		mt, ok := x.Type().Underlying().(*types.Map)
		if !ok {
			return nil
		}
		t.zero = zeroCV(mt.Elem())
		refs := x.Referrers()
		if refs == nil {
			return nil
		}
		for _, r := range *refs {
			switch u := r.(type) {
			case *ssa.MapUpdate:
				k, isC := u.Key.(*ssa.Const)
				if !isC || k.Value == nil {
					return nil
				}
				t.elems[k.Value.ExactString()] = cv(u.Value)
			case *ssa.Store:
			default:
				return nil
			}
		}
	default:
		return nil
	}
	return t
}

// dirtyGlobals: the package variables some function other than init may write.
func dirtyGlobals(pkg *ssa.Package) map[*ssa.Global]bool {
	if d, ok := dirtyCache[pkg]; ok {
		return d
	}
	d := map[*ssa.Global]bool{}
	dirtyCache[pkg] = d
	initFn := pkg.Func("init")
	rootGlobal := func(v ssa.Value) *ssa.Global {
		for i := 0; i < 8; i++ {
			switch x := v.(type) {
			case *ssa.Global:
				return x
			case *ssa.FieldAddr:
				v = x.X
			case *ssa.IndexAddr:
				v = x.X
			case *ssa.UnOp:
				if x.Op != token.MUL {
					return nil
				}
				v = x.X
			default:
				return nil
			}
		}
		return nil
	}
	var visit func(fn *ssa.Function)
	seen := map[*ssa.Function]bool{}
	visit = func(fn *ssa.Function) {
		if fn == nil || seen[fn] || fn == initFn {
			return
		}
		seen[fn] = true
		for _, b := range fn.Blocks {
			for _, in := range b.Instrs {
				switch x := in.(type) {
				case *ssa.Store:
					if g := rootGlobal(x.Addr); g != nil {
						d[g] = true
					}
					if g, ok := x.Val.(*ssa.Global); ok {
						d[g] = true // address stored somewhere
					}
				case *ssa.MapUpdate:
					if g := rootGlobal(x.Map); g != nil {
						d[g] = true
					}
				case *ssa.UnOp, *ssa.IndexAddr, *ssa.FieldAddr:
				default:
					for _, op := range in.Operands(nil) {
						if op == nil || *op == nil {
							continue
						}
						if g, ok := (*op).(*ssa.Global); ok {
							d[g] = true // address escapes
						}
					}
				}
			}
		}
		for _, a := range fn.AnonFuncs {
			visit(a)
		}
	}
	for _, m := range pkg.Members {
		switch x := m.(type) {
		case *ssa.Function:
			visit(x)
		case *ssa.Type:
			for _, t := range []types.Type{x.Type(), types.NewPointer(x.Type())} {
				ms := pkg.Prog.MethodSets.MethodSet(t)
				for i := 0; i < ms.Len(); i++ {
					visit(pkg.Prog.MethodValue(ms.At(i)))
				}
			}
		}
	}
	return d
}

// tableLoad folds a load `*(&tbl[k])`.
func tableLoad(res *CEResult, addr ssa.Value) (CVal, bool) {
	ia, ok := addr.(*ssa.IndexAddr)
	if !ok {
		return Top, false
	}
	t := tableOfAddr(ia.X)
	if t == nil || t.n < 0 {
		return Top, false
	}
	k := res.Of(ia.Index)
	if k.K == CBot {
		return Bot, true
	}
	if k.K != CConst {
		return Top, false
	}
	i, isI := k.Int()
	if !isI || i < 0 || i >= t.n {
		return Top, false
	}
	if v, has := t.elems[k.C.ExactString()]; has {
		return v, true
	}
	return t.zero, true
}

// tableLookup folds a map look-up with a constant key.
func tableLookup(res *CEResult, x *ssa.Lookup) (CVal, bool) {
	t := tableOfAddr(x.X)
	if t == nil || t.n >= 0 {
		return Top, false
	}
	k := res.Of(x.Index)
	if k.K == CBot {
		return Bot, true
	}
	if k.K != CConst {
		return Top, false
	}
	v, has := t.elems[k.C.ExactString()]
	if !has {
		v = t.zero
	}
	if x.CommaOk {
		return TupleV(v, ConstV(constantBool(has))), true
	}
	return v, true
}

func constantBool(b bool) constant.Value { return constant.MakeBool(b) }

// TableKeys returns the constant keys (ExactString) of the package-level map table that v loads, for a value v
// that is the map operand of a look-up.
func TableKeys(v ssa.Value) (map[string]bool, bool) {
	t := tableOfAddr(v)
	if t == nil || t.n >= 0 {
		return nil, false
	}
	out := map[string]bool{}
	for k := range t.elems {
		out[k] = true
	}
	return out, true
}
