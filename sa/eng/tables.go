package eng

import (
	"go/ast"
	"go/constant"
	"go/token"
	"go/types"
	"strings"

	"golang.org/x/tools/go/packages"
)

// CaseKey is one key of a switch clause: a constant value, a type, or default.
type CaseKey struct {
	Const   constant.Value // nil if not constant
	Type    types.Type     // for type switches
	Expr    string
	Default bool
}

// Assign is an assignment in a clause body.
type Assign struct {
	LHS   string
	Op    token.Token // =, :=, +=, |=
	Const constant.Value
	RHS   ast.Expr
	Type  types.Type
}

// Ret is a return statement in a clause body.
type Ret struct {
	Stmt    *ast.ReturnStmt
	Types   []types.Type
	Results []ast.Expr
}

// Clause is one clause of a switch.
type Clause struct {
	Keys    []CaseKey
	Assigns []Assign
	Returns []Ret // returns anywhere inside the clause body (nested statements included, nested funcs excluded)
	Body    []ast.Stmt
	Node    *ast.CaseClause
}

// Switch is an extracted switch statement.
type Switch struct {
	Node    ast.Stmt
	Tag     ast.Expr // nil for tagless / type switch
	TagStr  string
	IsType  bool
	Clauses []Clause
}

// ConstOf evaluates e to a constant through types.Info (nil if not constant).
func ConstOf(info *types.Info, e ast.Expr) constant.Value {
	if tv, ok := info.Types[e]; ok && tv.Value != nil {
		return tv.Value
	}
	return nil
}

// Switches extracts all switch statements under root (not descending into function literals unless descend).
func Switches(pkg *packages.Package, root ast.Node) []Switch {
	info := pkg.TypesInfo
	var out []Switch
	ast.Inspect(root, func(n ast.Node) bool {
		switch s := n.(type) {
		case *ast.SwitchStmt:
			sw := Switch{Node: s, Tag: s.Tag}
			if s.Tag != nil {
				sw.TagStr = types.ExprString(s.Tag)
			}
			for _, st := range s.Body.List {
				cc := st.(*ast.CaseClause)
				sw.Clauses = append(sw.Clauses, clauseOf(info, cc, false))
			}
			out = append(out, sw)
		case *ast.TypeSwitchStmt:
			sw := Switch{Node: s, IsType: true}
			switch a := s.Assign.(type) {
			case *ast.AssignStmt:
				sw.TagStr = types.ExprString(a.Rhs[0])
			case *ast.ExprStmt:
				sw.TagStr = types.ExprString(a.X)
			}
			for _, st := range s.Body.List {
				cc := st.(*ast.CaseClause)
				sw.Clauses = append(sw.Clauses, clauseOf(info, cc, true))
			}
			out = append(out, sw)
		}
		return true
	})
	return out
}

func clauseOf(info *types.Info, cc *ast.CaseClause, isType bool) Clause {
	c := Clause{Node: cc, Body: cc.Body}
	if cc.List == nil {
		c.Keys = []CaseKey{{Default: true, Expr: "default"}}
	}
	for _, e := range cc.List {
		k := CaseKey{Expr: types.ExprString(e)}
		if isType {
			if tv, ok := info.Types[e]; ok {
				k.Type = tv.Type
			}
		} else {
			k.Const = ConstOf(info, e)
		}
		c.Keys = append(c.Keys, k)
	}
	for _, st := range cc.Body {
		ast.Inspect(st, func(n ast.Node) bool {
			switch x := n.(type) {
			case *ast.FuncLit:
				return false
			case *ast.AssignStmt:
				for i, l := range x.Lhs {
					if i >= len(x.Rhs) {
						break
					}
					a := Assign{LHS: types.ExprString(l), Op: x.Tok, RHS: x.Rhs[i], Const: ConstOf(info, x.Rhs[i])}
					if tv, ok := info.Types[x.Rhs[i]]; ok {
						a.Type = tv.Type
					}
					c.Assigns = append(c.Assigns, a)
				}
			case *ast.ReturnStmt:
				r := Ret{Stmt: x, Results: x.Results}
				for _, e := range x.Results {
					if tv, ok := info.Types[e]; ok {
						r.Types = append(r.Types, tv.Type)
					} else {
						r.Types = append(r.Types, nil)
					}
				}
				c.Returns = append(c.Returns, r)
			}
			return true
		})
	}
	return c
}

// ConstInt64 converts a constant to int64.
func ConstInt64(v constant.Value) (int64, bool) {
	if v == nil {
		return 0, false
	}
	v = constant.ToInt(v)
	if v.Kind() != constant.Int {
		return 0, false
	}
	if n, ok := constant.Int64Val(v); ok {
		return n, true
	}
	if u, ok := constant.Uint64Val(v); ok {
		return int64(u), true
	}
	return 0, false
}

// TypeShort renders a type relative to the module ("*geom.Point").
func TypeShort(t types.Type) string {
	if t == nil {
		return "<nil>"
	}
	return types.TypeString(t, func(p *types.Package) string {
		path := p.Path()
		if i := strings.LastIndex(path, "/"); i >= 0 {
			path = path[i+1:]
		}
		if path == "go-geom" {
			return "geom"
		}
		return path
	})
}
