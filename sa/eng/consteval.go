package eng

import (
	"fmt"
	"go/constant"
	"go/token"
	"go/types"
	"strings"

	"golang.org/x/tools/go/ssa"
)

// CONSTEVAL: sparse conditional constant propagation (Wegman-Zadeck) over go/ssa with per-instance bindings.
// A rule binds the quantities a table is indexed by (a Layout constant, the dynamic type behind an interface
// parameter, the word a reader just decoded) and reads off which blocks stay reachable and which constants reach
// the sinks. Nothing is executed: every value is an element of the flat lattice Bot < {constants, nil, dynamic
// type} < Top, branches on Top follow both edges, loops converge because the lattice has height two.

type CKind int

const (
	CBot     CKind = iota // not (yet) reached
	CConst                // a constant of basic type
	CNil                  // the nil value of a pointer/interface/slice/map/func type
	CType                 // a non-nil interface value whose dynamic type is T (contents unknown)
	CTuple                // multiple results
	CSym                  // an opaque symbol standing for a caller-supplied object (nothing can be computed from it)
	CPtr                  // the address of a local struct variable (F < 0) or of its field F
	CStruct               // a struct value, field by field
	CClosure              // a function literal (Fn) with the values bound to its free variables (Tup)
	CTop                  // unknown
)

// CVal is an abstract value.
type CVal struct {
	K   CKind
	C   constant.Value
	T   types.Type
	Tup []CVal
	S   string
	A   *ssa.Alloc
	F   int
	Fn  *ssa.Function
}

var (
	Top = CVal{K: CTop}
	Bot = CVal{K: CBot}
)

func ConstV(c constant.Value) CVal { return CVal{K: CConst, C: c} }
func IntV(k int64) CVal            { return CVal{K: CConst, C: constant.MakeInt64(k)} }
func NilV() CVal                   { return CVal{K: CNil} }
func DynV(t types.Type) CVal       { return CVal{K: CType, T: t} }
func TupleV(vs ...CVal) CVal       { return CVal{K: CTuple, Tup: vs} }
func SymV(name string) CVal        { return CVal{K: CSym, S: name} }

func (v CVal) String() string {
	switch v.K {
	case CBot:
		return "unreached"
	case CConst:
		return v.C.ExactString()
	case CNil:
		return "nil"
	case CType:
		if v.T == nil {
			return "dyn(?)"
		}
		return "dyn(" + TypeShort(v.T) + ")"
	case CSym:
		return "sym(" + v.S + ")"
	case CPtr:
		return fmt.Sprintf("&%s.%d", v.A.Name(), v.F)
	case CClosure:
		return "closure(" + v.Fn.Name() + ")"
	case CStruct:
		var ps []string
		for _, e := range v.Tup {
			ps = append(ps, e.String())
		}
		return "{" + strings.Join(ps, ", ") + "}"
	case CTuple:
		var ps []string
		for _, e := range v.Tup {
			ps = append(ps, e.String())
		}
		return "(" + strings.Join(ps, ", ") + ")"
	}
	return "?"
}

// Int returns the value as int64 when it is an integer constant.
func (v CVal) Int() (int64, bool) {
	if v.K != CConst || v.C.Kind() != constant.Int {
		return 0, false
	}
	if k, ok := constant.Int64Val(v.C); ok {
		return k, true
	}
	if u, ok := constant.Uint64Val(v.C); ok {
		return int64(u), true
	}
	return 0, false
}

func (v CVal) Bool() (bool, bool) {
	if v.K != CConst || v.C.Kind() != constant.Bool {
		return false, false
	}
	return constant.BoolVal(v.C), true
}

func (a CVal) eq(b CVal) bool {
	if a.K != b.K {
		return false
	}
	switch a.K {
	case CConst:
		return a.C.Kind() == b.C.Kind() && constant.Compare(a.C, token.EQL, b.C)
	case CType:
		return a.T != nil && b.T != nil && types.Identical(a.T, b.T)
	case CSym:
		return a.S == b.S
	case CPtr:
		return a.A == b.A && a.F == b.F
	case CClosure:
		if a.Fn != b.Fn || len(a.Tup) != len(b.Tup) {
			return false
		}
		for i := range a.Tup {
			if !a.Tup[i].eq(b.Tup[i]) {
				return false
			}
		}
	case CTuple, CStruct:
		if len(a.Tup) != len(b.Tup) {
			return false
		}
		for i := range a.Tup {
			if !a.Tup[i].eq(b.Tup[i]) {
				return false
			}
		}
	}
	return true
}

func meet(a, b CVal) CVal {
	switch {
	case a.K == CBot:
		return b
	case b.K == CBot:
		return a
	case a.K == CTuple && b.K == CTuple && len(a.Tup) == len(b.Tup):
		out := make([]CVal, len(a.Tup))
		for i := range a.Tup {
			out[i] = meet(a.Tup[i], b.Tup[i])
		}
		return TupleV(out...)
	case a.K == CStruct && b.K == CStruct && len(a.Tup) == len(b.Tup):
		out := make([]CVal, len(a.Tup))
		for i := range a.Tup {
			out[i] = meet(a.Tup[i], b.Tup[i])
		}
		return CVal{K: CStruct, Tup: out}
	case a.eq(b):
		return a
	case a.K == CType && b.K == CType:
		// two non-nil interface values of different (or unknown) dynamic type: non-nil, type unknown
		return CVal{K: CType}
	}
	return Top
}

// ConstEval is the evaluator configuration.
type ConstEval struct {
	// Override is consulted for every value before the default transfer function; ok=true fixes the value.
	Override func(fn *ssa.Function, v ssa.Value, args []CVal) (CVal, bool)
	// OverrideIn is like Override but also receives the activation (to look at the abstract values of other operands).
	OverrideIn func(res *CEResult, v ssa.Value, args []CVal) (CVal, bool)
	// Inline decides whether a statically resolved callee is evaluated (default: every function with a body).
	Inline func(callee *ssa.Function) bool
	// InlineArgs, when set, replaces Inline and also sees the abstract arguments.
	InlineArgs func(callee *ssa.Function, args []CVal) bool
	MaxDepth   int
	// Trace receives every evaluated activation (for reachability queries inside callees).
	Trace []*CEResult

	prog  *ssa.Program
	stack []*ssa.Function
	free  []CVal // values for the free variables of the next activation (a function literal being called)

	// local struct variables, field by field (flow-insensitive meet of the stores that are reached)
	fields  map[*ssa.Alloc][]CVal
	zeroed  map[*ssa.Alloc]map[int]bool // fields read without any reached store: they hold their zero value
	missing map[*ssa.Alloc]map[int]bool
	version int
}

func structOf(a *ssa.Alloc) *types.Struct {
	pt, ok := a.Type().Underlying().(*types.Pointer)
	if !ok {
		return nil
	}
	st, _ := pt.Elem().Underlying().(*types.Struct)
	if st == nil || st.NumFields() > 24 {
		return nil
	}
	return st
}

func zeroCV(t types.Type) CVal {
	switch u := t.Underlying().(type) {
	case *types.Basic:
		switch {
		case u.Info()&types.IsBoolean != 0:
			return ConstV(constant.MakeBool(false))
		case u.Info()&types.IsString != 0:
			return ConstV(constant.MakeString(""))
		case u.Info()&types.IsNumeric != 0:
			return IntV(0)
		}
	case *types.Pointer, *types.Interface, *types.Slice, *types.Map, *types.Signature, *types.Chan:
		return NilV()
	}
	return Top
}

// capturedCell: a local variable of non-struct type that a function literal captures (one pseudo-field, index 0).
func capturedCell(a *ssa.Alloc) bool {
	if structOf(a) != nil || a.Referrers() == nil {
		return false
	}
	for _, r := range *a.Referrers() {
		if _, ok := r.(*ssa.MakeClosure); ok {
			return true
		}
	}
	return false
}

func fieldType(a *ssa.Alloc, f int) types.Type {
	if st := structOf(a); st != nil {
		return st.Field(f).Type()
	}
	return a.Type().Underlying().(*types.Pointer).Elem()
}

func (e *ConstEval) fieldVals(a *ssa.Alloc) []CVal {
	if e.fields == nil {
		e.fields = map[*ssa.Alloc][]CVal{}
	}
	fs, ok := e.fields[a]
	if !ok {
		st := structOf(a)
		n := 1
		if st == nil {
			if !capturedCell(a) {
				return nil
			}
		} else {
			n = st.NumFields()
		}
		fs = make([]CVal, n)
		for i := range fs {
			fs[i] = Bot
		}
		e.fields[a] = fs
	}
	return fs
}

func (e *ConstEval) storeField(a *ssa.Alloc, f int, v CVal) {
	fs := e.fieldVals(a)
	if fs == nil || f >= len(fs) || v.K == CBot {
		return
	}
	m := meet(fs[f], v)
	if !m.eq(fs[f]) {
		fs[f] = m
		e.version++
	}
}

func (e *ConstEval) loadField(a *ssa.Alloc, f int) CVal {
	fs := e.fieldVals(a)
	if fs == nil || f >= len(fs) {
		return Top
	}
	v := fs[f]
	if e.zeroed[a][f] {
		v = meet(v, zeroCV(fieldType(a, f)))
	} else if v.K == CBot {
		if e.missing == nil {
			e.missing = map[*ssa.Alloc]map[int]bool{}
		}
		if e.missing[a] == nil {
			e.missing[a] = map[int]bool{}
		}
		e.missing[a][f] = true
	}
	return v
}

// escape: the variable is handed to code that is not evaluated; every field becomes unknown.
func (e *ConstEval) escape(v CVal) {
	if v.K == CClosure {
		// the function literal may be run by code that is not evaluated: whatever it captured may be written
		for _, b := range v.Tup {
			e.escape(b)
		}
		return
	}
	if v.K != CPtr {
		return
	}
	fs := e.fieldVals(v.A)
	for i := range fs {
		if v.F < 0 || v.F == i {
			e.storeField(v.A, i, Top)
		}
	}
}

// RunStable is Run repeated until no field of a local struct is read before any store to it is reached: such
// fields are then given their zero value (each round can only lower values, so this terminates).
func (e *ConstEval) RunStable(fn *ssa.Function, args []CVal) *CEResult {
	var res *CEResult
	for round := 0; round < 6; round++ {
		e.missing = nil
		e.Trace = nil
		res = e.Run(fn, args)
		added := false
		for a, fs := range e.missing {
			for f := range fs {
				if e.fields[a][f].K == CBot && !e.zeroed[a][f] {
					if e.zeroed == nil {
						e.zeroed = map[*ssa.Alloc]map[int]bool{}
					}
					if e.zeroed[a] == nil {
						e.zeroed[a] = map[int]bool{}
					}
					e.zeroed[a][f] = true
					added = true
				}
			}
		}
		if !added {
			break
		}
	}
	return res
}

var _ = fmt.Sprint

// CEResult is one evaluated activation.
type CEResult struct {
	Fn    *ssa.Function
	Args  []CVal
	Val   map[ssa.Value]CVal
	Reach map[*ssa.BasicBlock]bool
	Ret   CVal // meet of the operands of the reachable returns (tuple when n>1); Bot when none is reachable
	Rets  []*ssa.Return
	Edge  map[[2]int]bool         // reachable CFG edges (from block index, to block index)
	Sub   map[*ssa.Call]*CEResult // the activation evaluated for each inlined call (last iteration)
}

// Of returns the abstract value of v in this activation.
func (r *CEResult) Of(v ssa.Value) CVal {
	if c, ok := v.(*ssa.Const); ok {
		return constOf(c)
	}
	if x, ok := r.Val[v]; ok {
		return x
	}
	switch v.(type) {
	case *ssa.Global, *ssa.Function, *ssa.Builtin:
		return Top
	}
	return Bot
}

// Reached reports whether the instruction's block is reachable.
func (r *CEResult) Reached(in ssa.Instruction) bool { return r.Reach[in.Block()] }

func constOf(c *ssa.Const) CVal {
	if c.Value == nil {
		switch t := c.Type().Underlying().(type) {
		case *types.Basic:
			switch {
			case t.Info()&types.IsBoolean != 0:
				return ConstV(constant.MakeBool(false))
			case t.Info()&types.IsString != 0:
				return ConstV(constant.MakeString(""))
			case t.Info()&types.IsNumeric != 0:
				return IntV(0)
			}
			return NilV()
		case *types.Pointer, *types.Interface, *types.Slice, *types.Map, *types.Signature, *types.Chan:
			return NilV()
		}
		return Top // zero struct / array
	}
	return ConstV(c.Value)
}

// wrap reduces an integer constant to the range of basic type t (two's complement), rounds floats to float64.
func wrap(c constant.Value, t types.Type) constant.Value {
	b, ok := t.Underlying().(*types.Basic)
	if !ok || c == nil {
		return c
	}
	if b.Info()&types.IsFloat != 0 {
		f, _ := constant.Float64Val(constant.ToFloat(c))
		if b.Kind() == types.Float32 {
			f = float64(float32(f))
		}
		return constant.MakeFloat64(f)
	}
	if b.Info()&types.IsInteger == 0 {
		return c
	}
	c = constant.ToInt(c)
	if c.Kind() != constant.Int {
		return c
	}
	var bits uint
	signed := b.Info()&types.IsUnsigned == 0
	switch b.Kind() {
	case types.Int8, types.Uint8:
		bits = 8
	case types.Int16, types.Uint16:
		bits = 16
	case types.Int32, types.Uint32:
		bits = 32
	default:
		bits = 64 // int, uint, uintptr are taken as 64-bit; the 386 configuration is checked by other rules
	}
	mod := constant.Shift(constant.MakeInt64(1), token.SHL, bits)
	// r = c mod 2^bits in [0, 2^bits)
	q := constant.BinaryOp(c, token.QUO_ASSIGN, mod)
	r := constant.BinaryOp(c, token.SUB, constant.BinaryOp(q, token.MUL, mod))
	if constant.Sign(r) < 0 {
		r = constant.BinaryOp(r, token.ADD, mod)
	}
	if signed {
		half := constant.Shift(constant.MakeInt64(1), token.SHL, bits-1)
		if constant.Compare(r, token.GEQ, half) {
			r = constant.BinaryOp(r, token.SUB, mod)
		}
	}
	return r
}

// Run evaluates fn with the given abstract arguments (shorter arg lists are padded with Top).
func (e *ConstEval) Run(fn *ssa.Function, args []CVal) *CEResult {
	if e.MaxDepth == 0 {
		e.MaxDepth = 6
	}
	res := &CEResult{Fn: fn, Args: args, Val: map[ssa.Value]CVal{}, Reach: map[*ssa.BasicBlock]bool{}, Ret: Bot, Sub: map[*ssa.Call]*CEResult{}}
	if len(fn.Blocks) == 0 {
		res.Ret = Top
		return res
	}
	e.stack = append(e.stack, fn)
	defer func() { e.stack = e.stack[:len(e.stack)-1] }()
	for i, p := range fn.Params {
		v := Top
		if i < len(args) {
			v = args[i]
		}
		if e.Override != nil {
			if o, ok := e.Override(fn, p, nil); ok {
				v = o
			}
		}
		res.Val[p] = v
	}
	for i, fv := range fn.FreeVars {
		res.Val[fv] = Top
		if i < len(e.free) {
			res.Val[fv] = e.free[i]
		}
	}
	e.free = nil
	edge := map[[2]int]bool{}
	res.Edge = edge
	res.Reach[fn.Blocks[0]] = true
	set := func(v ssa.Value, nv CVal) bool {
		old := res.Val[v]
		m := meet(old, nv)
		if !m.eq(old) {
			res.Val[v] = m
			return true
		}
		return false
	}
	for iter := 0; iter < 64; iter++ {
		changed := false
		v0 := e.version
		for _, b := range fn.Blocks {
			if !res.Reach[b] {
				continue
			}
			for _, in := range b.Instrs {
				switch x := in.(type) {
				case *ssa.Phi:
					v := Bot
					for i, pe := range x.Edges {
						if edge[[2]int{b.Preds[i].Index, b.Index}] {
							v = meet(v, res.Of(pe))
						}
					}
					if e.Override != nil {
						if o, ok := e.Override(fn, x, nil); ok {
							v = o
						}
					}
					if set(x, v) {
						changed = true
					}
				case *ssa.If:
					c := res.Of(x.Cond)
					mark := func(i int) {
						k := [2]int{b.Index, b.Succs[i].Index}
						if !edge[k] {
							edge[k], changed = true, true
						}
						if !res.Reach[b.Succs[i]] {
							res.Reach[b.Succs[i]], changed = true, true
						}
					}
					if bv, ok := c.Bool(); ok {
						if bv {
							mark(0)
						} else {
							mark(1)
						}
					} else if c.K != CBot {
						mark(0)
						mark(1)
					}
				case *ssa.Jump:
					k := [2]int{b.Index, b.Succs[0].Index}
					if !edge[k] {
						edge[k], changed = true, true
					}
					if !res.Reach[b.Succs[0]] {
						res.Reach[b.Succs[0]], changed = true, true
					}
				case *ssa.Store:
					if a := res.Of(x.Addr); a.K == CPtr {
						v := res.Of(x.Val)
						switch {
						case a.F >= 0:
							e.storeField(a.A, a.F, v)
						case v.K == CStruct:
							for i, fv := range v.Tup {
								e.storeField(a.A, i, fv)
							}
						case v.K != CBot:
							e.escape(a)
						}
					}
				case ssa.Value:
					if set(x, e.transfer(fn, res, x)) {
						changed = true
					}
				}
			}
		}
		if e.version != v0 {
			changed = true
		}
		if !changed {
			break
		}
	}
	// A function whose last result is an error: the values handed back on a return whose error is known to be
	// non-nil are not looked at by callers (`if err != nil { return ..., err }`), so they are left out of the meet of
	// the value results; the error result itself is the meet over all returns. (Assumption: the values of a failed
	// call are not used.)
	nres := fn.Signature.Results().Len()
	errLast := nres >= 2 && IsErrorType(fn.Signature.Results().At(nres-1).Type())
	var failed []CVal // error values of the returns that were left out
	anySuccess := false
	if errLast {
		for _, b := range fn.Blocks {
			if !res.Reach[b] || len(b.Instrs) == 0 {
				continue
			}
			if ret, ok := b.Instrs[len(b.Instrs)-1].(*ssa.Return); ok && len(ret.Results) == nres {
				if ev := res.Of(ret.Results[nres-1]); ev.K != CType && ev.K != CBot && !knownNonNilAt(ret.Results[nres-1], b) {
					anySuccess = true
				}
			}
		}
	}
	for _, b := range fn.Blocks {
		if !res.Reach[b] || len(b.Instrs) == 0 {
			continue
		}
		if ret, ok := b.Instrs[len(b.Instrs)-1].(*ssa.Return); ok {
			res.Rets = append(res.Rets, ret)
			if errLast && anySuccess && len(ret.Results) == nres {
				if ev := res.Of(ret.Results[nres-1]); ev.K == CType || knownNonNilAt(ret.Results[nres-1], b) {
					failed = append(failed, Top)
					continue
				}
			}
			var rv CVal
			switch len(ret.Results) {
			case 0:
				rv = TupleV()
			case 1:
				rv = res.Of(ret.Results[0])
			default:
				vs := make([]CVal, len(ret.Results))
				for i, r := range ret.Results {
					vs[i] = res.Of(r)
				}
				rv = TupleV(vs...)
			}
			res.Ret = meet(res.Ret, rv)
		}
	}
	if errLast && !anySuccess && res.Ret.K == CTuple && len(res.Ret.Tup) == nres && len(res.Rets) > 0 {
		// every return that is reached hands back an error known to be non-nil (a constructed error value, or one
		// behind `err != nil`): the caller's `if err != nil` is decided
		allFail := true
		for _, ret := range res.Rets {
			if len(ret.Results) != nres {
				allFail = false
				continue
			}
			if ev := res.Of(ret.Results[nres-1]); !(ev.K == CType || knownNonNilAt(ret.Results[nres-1], ret.Block())) {
				allFail = false
			}
		}
		if allFail {
			out := append([]CVal{}, res.Ret.Tup...)
			out[nres-1] = CVal{K: CType}
			res.Ret = TupleV(out...)
		}
	}
	if len(failed) > 0 && res.Ret.K == CTuple && len(res.Ret.Tup) == nres {
		out := append([]CVal{}, res.Ret.Tup...)
		for _, ev := range failed {
			out[nres-1] = meet(out[nres-1], ev)
		}
		res.Ret = TupleV(out...)
	}
	e.Trace = append(e.Trace, res)
	return res
}

func (e *ConstEval) transfer(fn *ssa.Function, res *CEResult, v ssa.Value) CVal {
	var args []CVal
	if c, ok := v.(*ssa.Call); ok {
		for _, a := range c.Call.Args {
			args = append(args, res.Of(a))
		}
		if c.Call.IsInvoke() {
			args = append([]CVal{res.Of(c.Call.Value)}, args...)
		}
	}
	if e.Override != nil {
		if o, ok := e.Override(fn, v, args); ok {
			return o
		}
	}
	if e.OverrideIn != nil {
		if o, ok := e.OverrideIn(res, v, args); ok {
			return o
		}
	}
	switch x := v.(type) {
	case *ssa.Alloc:
		if structOf(x) != nil {
			return CVal{K: CPtr, A: x, F: -1}
		}
		if capturedCell(x) {
			return CVal{K: CPtr, A: x, F: 0}
		}
		return Top
	case *ssa.MakeClosure:
		cf, _ := x.Fn.(*ssa.Function)
		if cf == nil {
			return Top
		}
		bs := make([]CVal, len(x.Bindings))
		for i, b := range x.Bindings {
			bs[i] = res.Of(b)
			if bs[i].K == CBot {
				return Bot
			}
		}
		return CVal{K: CClosure, Fn: cf, Tup: bs}
	case *ssa.FieldAddr:
		a := res.Of(x.X)
		if a.K == CBot {
			return Bot
		}
		if a.K == CPtr && a.F < 0 {
			return CVal{K: CPtr, A: a.A, F: x.Field}
		}
		return Top
	case *ssa.Field:
		a := res.Of(x.X)
		if a.K == CBot {
			return Bot
		}
		if a.K == CStruct && x.Field < len(a.Tup) {
			return a.Tup[x.Field]
		}
		return Top
	case *ssa.BinOp:
		return foldBin(x, res.Of(x.X), res.Of(x.Y))
	case *ssa.UnOp:
		a := res.Of(x.X)
		if a.K == CBot {
			return Bot
		}
		if x.Op == token.MUL && a.K == CPtr {
			if a.F >= 0 {
				return e.loadField(a.A, a.F)
			}
			fs := e.fieldVals(a.A)
			out := make([]CVal, len(fs))
			for i := range fs {
				out[i] = e.loadField(a.A, i)
			}
			return CVal{K: CStruct, Tup: out}
		}
		if x.Op == token.MUL {
			if v, ok := tableLoad(res, x.X); ok {
				return v
			}
		}
		if x.Op == token.MUL || x.Op == token.ARROW || a.K != CConst {
			return Top
		}
		switch x.Op {
		case token.NOT:
			if b, ok := a.Bool(); ok {
				return ConstV(constant.MakeBool(!b))
			}
		case token.SUB:
			return ConstV(wrap(constant.UnaryOp(token.SUB, a.C, 0), x.Type()))
		case token.XOR:
			if a.C.Kind() == constant.Int {
				return ConstV(wrap(constant.UnaryOp(token.XOR, a.C, 0), x.Type()))
			}
		}
		return Top
	case *ssa.Convert:
		a := res.Of(x.X)
		if a.K == CBot {
			return Bot
		}
		if a.K == CSym {
			// a symbol stands for a decoded word; an integer conversion hands the same word on
			if tb, isB := x.Type().Underlying().(*types.Basic); isB && tb.Info()&types.IsInteger != 0 {
				if sb, isS := x.X.Type().Underlying().(*types.Basic); isS && sb.Info()&types.IsInteger != 0 && !intTypeHolds(tb, sb) {
					// the target type cannot hold every value of the source type: the word is altered
					return SymV(a.S + "~" + tb.Name())
				}
				return a
			}
		}
		if a.K != CConst {
			return Top
		}
		tb, ok := x.Type().Underlying().(*types.Basic)
		if !ok {
			return Top
		}
		switch {
		case tb.Info()&types.IsInteger != 0:
			if a.C.Kind() == constant.Int {
				return ConstV(wrap(a.C, x.Type()))
			}
			if a.C.Kind() == constant.Float {
				f, _ := constant.Float64Val(a.C)
				if f != f || f > 9e18 || f < -9e18 {
					return Top
				}
				return ConstV(wrap(constant.MakeInt64(int64(f)), x.Type()))
			}
		case tb.Info()&types.IsFloat != 0:
			if a.C.Kind() == constant.Int || a.C.Kind() == constant.Float {
				return ConstV(wrap(a.C, x.Type()))
			}
		case tb.Info()&types.IsString != 0:
			if a.C.Kind() == constant.String {
				return a
			}
		}
		return Top
	case *ssa.ChangeType:
		return res.Of(x.X)
	case *ssa.MakeInterface:
		a := res.Of(x.X)
		if a.K == CBot {
			return Bot
		}
		return DynV(x.X.Type())
	case *ssa.ChangeInterface:
		return res.Of(x.X)
	case *ssa.TypeAssert:
		a := res.Of(x.X)
		if a.K == CBot {
			return Bot
		}
		var okv CVal = Top
		val := Top
		switch a.K {
		case CNil:
			okv = ConstV(constant.MakeBool(false))
		case CType:
			if a.T == nil {
				break // non-nil, dynamic type unknown
			}
			var holds bool
			if it, isI := x.AssertedType.Underlying().(*types.Interface); isI {
				holds = types.Implements(a.T, it)
			} else {
				holds = types.Identical(a.T, x.AssertedType)
			}
			okv = ConstV(constant.MakeBool(holds))
			if holds {
				if _, isI := x.AssertedType.Underlying().(*types.Interface); isI {
					val = a
				}
			}
		}
		if x.CommaOk {
			return TupleV(val, okv)
		}
		return val
	case *ssa.Extract:
		a := res.Of(x.Tuple)
		if a.K == CBot {
			return Bot
		}
		if a.K == CTuple && x.Index < len(a.Tup) {
			return a.Tup[x.Index]
		}
		return Top
	case *ssa.Lookup:
		s, i := res.Of(x.X), res.Of(x.Index)
		if s.K == CBot || i.K == CBot {
			return Bot
		}
		if v, ok := tableLookup(res, x); ok {
			return v
		}
		if s.K == CConst && s.C.Kind() == constant.String {
			if k, ok := i.Int(); ok {
				str := constant.StringVal(s.C)
				if k >= 0 && int(k) < len(str) {
					return IntV(int64(str[k]))
				}
			}
		}
		return Top
	case *ssa.Slice:
		s := res.Of(x.X)
		if s.K == CBot {
			return Bot
		}
		if s.K == CConst && s.C.Kind() == constant.String {
			str := constant.StringVal(s.C)
			lo, hi := int64(0), int64(len(str))
			okb := true
			if x.Low != nil {
				lo, okb = res.Of(x.Low).Int()
			}
			if okb && x.High != nil {
				hi, okb = res.Of(x.High).Int()
			}
			if okb && 0 <= lo && lo <= hi && hi <= int64(len(str)) {
				return ConstV(constant.MakeString(str[lo:hi]))
			}
		}
		return Top
	case *ssa.Call:
		for _, a := range args {
			if a.K == CBot {
				return Bot
			}
		}
		return e.call(fn, res, x, args)
	}
	return Top
}

func (e *ConstEval) call(fn *ssa.Function, res *CEResult, c *ssa.Call, args []CVal) CVal {
	if b, ok := c.Call.Value.(*ssa.Builtin); ok {
		if b.Name() == "len" && len(args) == 1 && args[0].K == CConst && args[0].C.Kind() == constant.String {
			return IntV(int64(len(constant.StringVal(args[0].C))))
		}
		if b.Name() == "len" && len(args) == 1 && args[0].K == CNil {
			return IntV(0)
		}
		if (b.Name() == "min" || b.Name() == "max") && len(args) >= 1 {
			best := args[0]
			for _, a := range args {
				if a.K != CConst || (a.C.Kind() != constant.Int && a.C.Kind() != constant.Float) {
					return Top
				}
				if f, _ := constant.Float64Val(constant.ToFloat(a.C)); f != f {
					return Top // NaN: the builtins propagate it
				}
				if b.Name() == "min" && constant.Compare(a.C, token.LSS, best.C) || b.Name() == "max" && constant.Compare(a.C, token.GTR, best.C) {
					best = a
				}
			}
			return best
		}
		return Top
	}
	var callee *ssa.Function
	var free []CVal
	if c.Call.IsInvoke() {
		// receiver with a known dynamic type
		if args[0].K == CType && args[0].T != nil && fn.Prog != nil {
			callee = fn.Prog.LookupMethod(args[0].T, c.Call.Method.Pkg(), c.Call.Method.Name())
			if callee != nil {
				args = append([]CVal{Top}, args[1:]...) // contents of the receiver are unknown
			}
		}
	} else {
		callee = c.Call.StaticCallee()
		if cv := res.Of(c.Call.Value); cv.K == CClosure {
			callee, free = cv.Fn, cv.Tup
		}
	}
	esc := func() CVal {
		for _, a := range args {
			e.escape(a)
		}
		for _, a := range free {
			e.escape(a)
		}
		return Top
	}
	if callee == nil || len(callee.Blocks) == 0 || len(e.stack) >= e.MaxDepth {
		return esc()
	}
	if e.InlineArgs != nil {
		if !e.InlineArgs(callee, args) {
			return esc()
		}
	} else if e.Inline != nil && !e.Inline(callee) {
		return esc()
	}
	for _, s := range e.stack {
		if s == callee {
			return esc()
		}
	}
	e.free = free
	sub := e.Run(callee, args)
	res.Sub[c] = sub
	if sub.Ret.K == CBot {
		return Bot // the callee cannot return (it panics or loops): nothing after the call is reached
	}
	if sub.Ret.K == CTuple && len(sub.Ret.Tup) == 0 {
		return Top
	}
	return sub.Ret
}

func foldBin(x *ssa.BinOp, a, b CVal) CVal {
	if a.K == CBot || b.K == CBot {
		return Bot
	}
	isCmp := x.Op == token.EQL || x.Op == token.NEQ
	if isCmp {
		// nil-ness comparisons
		known := func(v CVal) (isNil, ok bool) {
			switch v.K {
			case CNil:
				return true, true
			case CType:
				return false, true
			}
			return false, false
		}
		an, aok := known(a)
		bn, bok := known(b)
		if aok && bok && (an || bn) {
			return ConstV(constant.MakeBool((an == bn) == (x.Op == token.EQL)))
		}
		// two non-nil interface values: different dynamic types are unequal; identical zero-size dynamic types
		// (struct{} such as binary.bigEndian) have a single value and are equal
		if a.K == CType && b.K == CType && a.T != nil && b.T != nil {
			if !types.Identical(a.T, b.T) {
				return ConstV(constant.MakeBool(x.Op == token.NEQ))
			}
			if st, isS := a.T.Underlying().(*types.Struct); isS && st.NumFields() == 0 {
				return ConstV(constant.MakeBool(x.Op == token.EQL))
			}
		}
	}
	if a.K != CConst || b.K != CConst {
		// absorbing elements
		if x.Op == token.AND || x.Op == token.MUL {
			for _, v := range []CVal{a, b} {
				if k, ok := v.Int(); ok && k == 0 {
					if bt, isB := x.Type().Underlying().(*types.Basic); isB && bt.Info()&types.IsInteger != 0 {
						return IntV(0)
					}
				}
			}
		}
		return Top
	}
	defer func() { recover() }()
	switch x.Op {
	case token.EQL, token.NEQ, token.LSS, token.LEQ, token.GTR, token.GEQ:
		if a.C.Kind() == constant.Bool || a.C.Kind() == constant.String || b.C.Kind() == constant.String {
			if !isCmp && a.C.Kind() == constant.Bool {
				return Top
			}
		}
		return ConstV(constant.MakeBool(constant.Compare(a.C, x.Op, b.C)))
	case token.SHL, token.SHR:
		s, ok := b.Int()
		if !ok || s < 0 || s > 128 {
			return Top
		}
		return ConstV(wrap(constant.Shift(a.C, x.Op, uint(s)), x.Type()))
	case token.QUO, token.REM:
		if constant.Sign(b.C) == 0 {
			return Top
		}
		op := x.Op
		if a.C.Kind() == constant.Int && b.C.Kind() == constant.Int {
			if op == token.QUO {
				op = token.QUO_ASSIGN
			}
		} else if op == token.REM {
			return Top
		}
		return ConstV(wrap(constant.BinaryOp(a.C, op, b.C), x.Type()))
	case token.ADD, token.SUB, token.MUL, token.AND, token.OR, token.XOR, token.AND_NOT:
		if a.C.Kind() == constant.Bool {
			return Top
		}
		if a.C.Kind() == constant.Float || b.C.Kind() == constant.Float {
			if x.Op != token.ADD && x.Op != token.SUB && x.Op != token.MUL {
				return Top
			}
			// float64 arithmetic: round operands and result
			fa, _ := constant.Float64Val(constant.ToFloat(a.C))
			fb, _ := constant.Float64Val(constant.ToFloat(b.C))
			var f float64
			switch x.Op {
			case token.ADD:
				f = fa + fb
			case token.SUB:
				f = fa - fb
			default:
				f = fa * fb
			}
			if f != f || f > 1e308 || f < -1e308 {
				return Top
			}
			return ConstV(constant.MakeFloat64(f))
		}
		return ConstV(wrap(constant.BinaryOp(a.C, x.Op, b.C), x.Type()))
	}
	return Top
}

// ReachedCalls lists, over every activation evaluated so far, the reachable call instructions accepted by pred.
func (e *ConstEval) ReachedCalls(pred func(c *ssa.Call) bool) []ReachedCall {
	var out []ReachedCall
	for _, r := range e.Trace {
		for _, b := range r.Fn.Blocks {
			if !r.Reach[b] {
				continue
			}
			for _, in := range b.Instrs {
				if c, ok := in.(*ssa.Call); ok && pred(c) {
					rc := ReachedCall{Act: r, Call: c}
					for _, a := range c.Call.Args {
						rc.Args = append(rc.Args, r.Of(a))
					}
					out = append(out, rc)
				}
			}
		}
	}
	return out
}

// ReachedCall is a call instruction reachable in an evaluated activation, with its abstract arguments.
type ReachedCall struct {
	Act  *CEResult
	Call *ssa.Call
	Args []CVal
}

func (rc ReachedCall) String() string {
	return fmt.Sprintf("%s%v", rc.Call.Call.Value.Name(), rc.Args)
}

// GlobalInit resolves the load of a package-level variable to the value its package initialiser stores, for
// variables the module never writes elsewhere (that they are not written elsewhere is C17's globals-immutable
// obligation): a constant, or an interface holding a constant / a zero-size value.
func GlobalInit(v ssa.Value) (CVal, bool) {
	ld, ok := v.(*ssa.UnOp)
	if !ok || ld.Op != token.MUL {
		return CVal{}, false
	}
	g, ok := ld.X.(*ssa.Global)
	if !ok || g.Pkg == nil {
		return CVal{}, false
	}
	init := g.Pkg.Func("init")
	if init == nil {
		return CVal{}, false
	}
	var val ssa.Value
	n := 0
	for _, b := range init.Blocks {
		for _, in := range b.Instrs {
			if st, isSt := in.(*ssa.Store); isSt && st.Addr == ssa.Value(g) {
				val = st.Val
				n++
			}
		}
	}
	if n != 1 {
		return CVal{}, false
	}
	switch x := val.(type) {
	case *ssa.Const:
		return constOf(x), true
	case *ssa.MakeInterface:
		if c, isC := x.X.(*ssa.Const); isC {
			_ = c
			return DynV(x.X.Type()), true
		}
		if st, isS := x.X.Type().Underlying().(*types.Struct); isS && st.NumFields() == 0 {
			return DynV(x.X.Type()), true
		}
		if inner, isLd := x.X.(*ssa.UnOp); isLd && inner.Op == token.MUL {
			if _, isG := inner.X.(*ssa.Global); isG {
				return DynV(x.X.Type()), true
			}
		}
	}
	return CVal{}, false
}

// FirstCall returns the first call satisfying pred in dominator-tree preorder of fn, descending into statically
// resolved callees of the same package (in instruction order) before continuing: "the first word the reader decodes".
func FirstCall(fn *ssa.Function, pred func(*ssa.Call) bool, depth int) *ssa.Call {
	if fn == nil || len(fn.Blocks) == 0 || depth > 4 {
		return nil
	}
	for _, b := range fn.DomPreorder() {
		for _, in := range b.Instrs {
			c, ok := in.(*ssa.Call)
			if !ok {
				continue
			}
			if pred(c) {
				return c
			}
			if cal := c.Call.StaticCallee(); cal != nil && cal != fn && sameModule(cal, fn) && len(cal.Blocks) > 0 {
				if r := FirstCall(cal, pred, depth+1); r != nil {
					return r
				}
			}
		}
	}
	return nil
}

// WalkReached calls f for every instruction in a reachable block of the activation and, recursively, of the
// activations evaluated for its calls (the final ones of the fixpoint).
func WalkReached(top *CEResult, f func(act *CEResult, in ssa.Instruction)) {
	seen := map[*CEResult]bool{}
	var walk func(r *CEResult)
	walk = func(r *CEResult) {
		if r == nil || seen[r] {
			return
		}
		seen[r] = true
		for _, b := range r.Fn.Blocks {
			if !r.Reach[b] {
				continue
			}
			for _, in := range b.Instrs {
				f(r, in)
				if c, ok := in.(*ssa.Call); ok {
					walk(r.Sub[c])
				}
			}
		}
	}
	walk(top)
}

// sameModule: both functions are declared in packages whose import paths share their first three elements
// (host/owner/repository).
func sameModule(a, b *ssa.Function) bool {
	if a.Pkg == nil || b.Pkg == nil {
		return false
	}
	pre := func(p string) string {
		parts := strings.Split(p, "/")
		if len(parts) > 3 {
			parts = parts[:3]
		}
		return strings.Join(parts, "/")
	}
	return pre(a.Pkg.Pkg.Path()) == pre(b.Pkg.Pkg.Path())
}

// knownNonNilAt: v is known to be non-nil in block b because b is only reached through the edge of a test
// `v != nil` (or the other edge of `v == nil`).
func knownNonNilAt(v ssa.Value, b *ssa.BasicBlock) bool {
	for d := b; d != nil && d.Idom() != nil; d = d.Idom() {
		id := d.Idom()
		ifi := BlockIf(id)
		if ifi == nil || len(id.Succs) != 2 {
			continue
		}
		bo, ok := ifi.Cond.(*ssa.BinOp)
		if !ok || (bo.Op != token.NEQ && bo.Op != token.EQL) {
			continue
		}
		var other ssa.Value
		switch {
		case bo.X == v:
			other = bo.Y
		case bo.Y == v:
			other = bo.X
		default:
			continue
		}
		if !IsNilConst(other) {
			continue
		}
		edge := 0
		if bo.Op == token.EQL {
			edge = 1
		}
		s := id.Succs[edge]
		if (s == d || s.Dominates(d)) && len(s.Preds) == 1 {
			return true
		}
	}
	return false
}

// intTypeHolds: every value of integer type src is representable in integer type dst. int, uint and uintptr
// are taken at 64 bits (the width of the platforms the properties are stated for).
func intTypeHolds(dst, src *types.Basic) bool {
	bits := func(b *types.Basic) (int, bool) {
		switch b.Kind() {
		case types.Int8:
			return 8, true
		case types.Int16:
			return 16, true
		case types.Int32:
			return 32, true
		case types.Int64, types.Int, types.UntypedInt, types.UntypedRune:
			return 64, true
		case types.Uint8:
			return 8, false
		case types.Uint16:
			return 16, false
		case types.Uint32:
			return 32, false
		case types.Uint64, types.Uint, types.Uintptr:
			return 64, false
		}
		return 64, true
	}
	db, ds := bits(dst)
	sb, ss := bits(src)
	switch {
	case ss == ds:
		return db >= sb
	case !ss && ds:
		return db > sb
	}
	return false
}
