package eng

import (
	"go/ast"
	"go/token"
	"go/types"

	"golang.org/x/tools/go/packages"
)

// ChainLoop is a loop that walks an ends/endss slice carrying a running lower bound.
type ChainLoop struct {
	Loop   ast.Stmt
	Elem   string // the per-iteration end value (`end`, `ends`)
	Level  int    // 2: elem is int, 3: elem is []int
	Offset string // the running lower bound variable
	OK     bool
	Why    string
}

func isIntSlice(t types.Type) bool {
	s, ok := t.Underlying().(*types.Slice)
	if !ok {
		return false
	}
	b, ok := s.Elem().Underlying().(*types.Basic)
	return ok && b.Kind() == types.Int
}

func isIntSliceSlice(t types.Type) bool {
	s, ok := t.Underlying().(*types.Slice)
	return ok && isIntSlice(s.Elem())
}

// ChainLoops finds the range loops of fd that iterate an []int / [][]int and
// pass (running offset, element) pairs to a callee or slice expression, and
// checks that the offset is advanced to the element (or its last entry) each iteration.
func ChainLoops(pkg *packages.Package, fd *ast.FuncDecl) []ChainLoop {
	if fd.Body == nil {
		return nil
	}
	info := pkg.TypesInfo
	var out []ChainLoop
	ast.Inspect(fd.Body, func(n ast.Node) bool {
		rs, ok := n.(*ast.RangeStmt)
		if !ok {
			return true
		}
		// element: the range value variable over an []int / [][]int, or a body-local `e := X[key]`
		var elem *ast.Ident
		var elemT types.Type
		if v, ok := rs.Value.(*ast.Ident); ok && v.Name != "_" {
			if tv, ok := info.Types[rs.X]; ok && (isIntSlice(tv.Type) || isIntSliceSlice(tv.Type)) {
				elem = v
				elemT = tv.Type.Underlying().(*types.Slice).Elem()
			}
		}
		if elem == nil {
			if k, ok := rs.Key.(*ast.Ident); ok && k.Name != "_" {
				for _, st := range rs.Body.List {
					as, ok := st.(*ast.AssignStmt)
					if !ok || as.Tok != token.DEFINE || len(as.Lhs) != 1 || len(as.Rhs) != 1 {
						continue
					}
					ie, ok := as.Rhs[0].(*ast.IndexExpr)
					if !ok {
						continue
					}
					ki, ok := ie.Index.(*ast.Ident)
					if !ok || ki.Name != k.Name {
						continue
					}
					if tv, ok := info.Types[ie.X]; ok && (isIntSlice(tv.Type) || isIntSliceSlice(tv.Type)) {
						elem, _ = as.Lhs[0].(*ast.Ident)
						elemT = tv.Type.Underlying().(*types.Slice).Elem()
						break
					}
				}
			}
		}
		if elem == nil {
			return true
		}
		level := 2
		if isIntSlice(elemT) {
			level = 3
		}
		elemObj := info.ObjectOf(elem)
		// running offset: an int variable declared outside the loop that appears next to elem as
		// call arguments f(.., V, elem, ..) or slice bounds s[V:elem]
		var offObj types.Object
		var offName string
		usesObj := func(e ast.Expr, o types.Object) bool {
			id, ok := unparen(e).(*ast.Ident)
			return ok && info.ObjectOf(id) == o
		}
		outerInt := func(e ast.Expr) types.Object {
			id, ok := unparen(e).(*ast.Ident)
			if !ok {
				return nil
			}
			o := info.ObjectOf(id)
			v, ok := o.(*types.Var)
			if !ok || v.IsField() {
				return nil
			}
			if b, ok := v.Type().Underlying().(*types.Basic); !ok || b.Kind() != types.Int {
				return nil
			}
			if v.Pos() >= rs.Pos() && v.Pos() <= rs.End() {
				return nil // declared inside the loop
			}
			return o
		}
		ast.Inspect(rs.Body, func(m ast.Node) bool {
			switch x := m.(type) {
			case *ast.CallExpr:
				for i := 0; i+1 < len(x.Args); i++ {
					if usesObj(x.Args[i+1], elemObj) {
						if o := outerInt(x.Args[i]); o != nil {
							offObj, offName = o, o.Name()
						}
					}
				}
			case *ast.SliceExpr:
				if x.Low != nil && x.High != nil && usesObj(x.High, elemObj) {
					if o := outerInt(x.Low); o != nil {
						offObj, offName = o, o.Name()
					}
				}
			case *ast.BinaryExpr:
				// the "previous end" idiom: `end != prevEnd` decides whether a member is empty
				if x.Op == token.NEQ || x.Op == token.EQL {
					if usesObj(x.X, elemObj) {
						if o := outerInt(x.Y); o != nil && offObj == nil {
							offObj, offName = o, o.Name()
						}
					} else if usesObj(x.Y, elemObj) {
						if o := outerInt(x.X); o != nil && offObj == nil {
							offObj, offName = o, o.Name()
						}
					}
				}
			}
			return true
		})
		if offObj == nil {
			return true
		}
		cl := ChainLoop{Loop: rs, Elem: elem.Name, Level: level, Offset: offName}
		// all assignments to the offset inside the body
		type asg struct {
			st   *ast.AssignStmt
			rhs  ast.Expr
			path []ast.Node
		}
		var asgs []asg
		var stack []ast.Node
		bad := ""
		ast.Inspect(rs.Body, func(m ast.Node) bool {
			if m == nil {
				stack = stack[:len(stack)-1]
				return true
			}
			stack = append(stack, m)
			switch s := m.(type) {
			case *ast.AssignStmt:
				for i, l := range s.Lhs {
					if usesObj(l, offObj) {
						if s.Tok != token.ASSIGN || i >= len(s.Rhs) {
							bad = "running offset " + offName + " is updated with " + s.Tok.String() + " instead of being set to the element's end"
						} else {
							asgs = append(asgs, asg{s, s.Rhs[i], append([]ast.Node(nil), stack...)})
						}
					}
				}
			case *ast.IncDecStmt:
				if usesObj(s.X, offObj) {
					bad = "running offset " + offName + " is incremented instead of being set to the element's end"
				}
			}
			return true
		})
		switch {
		case bad != "":
			cl.Why = bad
		case len(asgs) == 0:
			cl.Why = "running offset " + offName + " is never advanced in the loop body: every part after the first is read from the wrong lower bound"
		case len(asgs) > 1:
			cl.Why = "running offset " + offName + " is assigned more than once in the loop body"
		default:
			a := asgs[0]
			if level == 2 {
				if usesObj(a.rhs, elemObj) && len(a.path) == 2 { // body block -> assign
					cl.OK, cl.Why = true, offName+" = "+elem.Name+" at the end of every iteration"
				} else if usesObj(a.rhs, elemObj) {
					cl.Why = "offset update is conditional"
				} else {
					cl.Why = "offset is set to " + types.ExprString(a.rhs) + ", not to the element " + elem.Name
				}
			} else {
				ie, ok := unparen(a.rhs).(*ast.IndexExpr)
				xs := ""
				if ok {
					xs, ok = asLastElem(ie)
				}
				if !ok || xs != elem.Name {
					cl.Why = "offset is set to " + types.ExprString(a.rhs) + ", not to the last end of " + elem.Name
				} else {
					// allowed nesting: directly in the body, or inside an `if len(elem) > 0` / else of `len(elem)==0` / after a `continue` guard
					cl.OK, cl.Why = true, offName+" = "+elem.Name+"[len("+elem.Name+")-1] each iteration (emptiness of the element is LASTELEM's obligation)"
					for _, pn := range a.path[1 : len(a.path)-1] {
						switch pp := pn.(type) {
						case *ast.BlockStmt:
						case *ast.IfStmt:
							if !(nonEmptyCond(pp.Cond, elem.Name) || emptyCond(pp.Cond, elem.Name)) {
								cl.OK, cl.Why = false, "offset update is conditional on "+types.ExprString(pp.Cond)
							}
						default:
							cl.OK, cl.Why = false, "offset update is nested in an unexpected statement"
						}
					}
				}
			}
		}
		out = append(out, cl)
		return true
	})
	return out
}
