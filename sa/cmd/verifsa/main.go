// Command verifsa decides structural clauses of the go-geom properties C01..C20
// by static analysis of the repository's current source.
package main

import (
	"flag"
	"fmt"
	"os"
	"path/filepath"
	"runtime/debug"
	"sort"
	"strconv"
	"time"

	"verifsa/core"
	"verifsa/props"
)

func usage() {
	fmt.Fprintln(os.Stderr, "usage: verifsa check <Cxx> [--tier quick|thorough] [--repo /repo] [--verif /verif]\n       verifsa explain --report <path>\n       verifsa list")
	os.Exit(2)
}

func main() {
	if len(os.Args) < 2 {
		usage()
	}
	switch os.Args[1] {
	case "list":
		var ids []string
		for id := range props.Registry {
			ids = append(ids, id)
		}
		sort.Strings(ids)
		for _, id := range ids {
			fmt.Println(id)
		}
	case "check":
		if len(os.Args) < 3 {
			usage()
		}
		id := os.Args[2]
		fs := flag.NewFlagSet("check", flag.ExitOnError)
		tier := fs.String("tier", os.Getenv("VERIF_TIER"), "quick|thorough")
		repo := fs.String("repo", "/repo", "repository root")
		verif := fs.String("verif", "/verif", "verif root (evidence, known findings)")
		onlyCfg := fs.String("config", "", "restrict to one configuration")
		fs.Parse(os.Args[3:])
		if *tier == "" {
			*tier = "quick"
		}
		os.Exit(check(id, *tier, *repo, *verif, *onlyCfg))
	case "explain":
		fs := flag.NewFlagSet("explain", flag.ExitOnError)
		rep := fs.String("report", "", "violation report path")
		fs.Parse(os.Args[2:])
		b, err := os.ReadFile(*rep)
		if err != nil {
			fmt.Fprintln(os.Stderr, err)
			os.Exit(2)
		}
		os.Stdout.Write(b)
		fmt.Println()
	default:
		usage()
	}
}

func check(id, tier, repo, verif, onlyCfg string) (code int) {
	start := time.Now()
	fn, ok := props.Registry[id]
	if !ok {
		fmt.Fprintf(os.Stderr, "verifsa: unknown property %s\n", id)
		return 2
	}
	defer func() {
		if e := recover(); e != nil {
			fmt.Fprintf(os.Stderr, "verifsa: internal panic: %v\n%s\n", e, debug.Stack())
			code = 2
		}
	}()
	seed, _ := strconv.Atoi(os.Getenv("VERIF_SEED"))
	repo, _ = filepath.Abs(repo)
	props.VerifDir, _ = filepath.Abs(verif)
	if _, err := os.Stat(filepath.Join(props.VerifDir, "bin", "goyacc")); err != nil {
		props.VerifDir = "/verif" // mutant runs use a scratch verif dir; tools stay in /verif/bin
	}
	rep := core.NewReport(id, tier)
	for _, cfg := range core.Configs(tier) {
		if onlyCfg != "" && cfg.Name != onlyCfg {
			continue
		}
		prog, err := core.Load(repo, cfg)
		if err != nil {
			fmt.Fprintf(os.Stderr, "verifsa: cannot analyse %s (%s): %v\n", repo, cfg.Name, err)
			return 2
		}
		rep.SetConfig(cfg.Name)
		rep.Count("packages", len(prog.Pkgs))
		fn(prog, rep)
	}
	// positive controls: every engine used by this property must classify its fixtures.
	if err := props.Controls(id, filepath.Join(props.VerifDir, "sa", "testdata")); err != nil {
		fmt.Fprintf(os.Stderr, "verifsa: positive control failed: %v\n", err)
		return 2
	}
	if os.Getenv("VERIFSA_CHILD") == "" && (tier == "thorough" && repo == "/repo" || os.Getenv("VERIF_SELFTEST") == "1") {
		results, err := selfTest(id, repo, props.VerifDir)
		if err != nil {
			fmt.Fprintf(os.Stderr, "verifsa: sensitivity self-test could not run: %v\n", err)
			return 2
		}
		missed := 0
		for _, mr := range results {
			rep.Count("selftest_"+mr.Status, 1)
			fmt.Printf("selftest %s/%s: %s %s\n", id, mr.Spec.Name, mr.Status, mr.Reported)
			if mr.Status == "missed" || mr.Status == "false-alarm" {
				missed++
			}
		}
		rep.Count("selftest_mutants", len(results))
		if missed > 0 {
			fmt.Fprintf(os.Stderr, "verifsa: self-test failed: %d frozen mutants of %s were applied, compile, and were not reported - or behaviour-preserving edits were reported; the checker (not /repo) is defective\n", missed, id)
			rep.Finish(verif, start, seed)
			return 2
		}
	}
	return rep.Finish(verif, start, seed)
}
