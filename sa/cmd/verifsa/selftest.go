package main

import (
	"encoding/json"
	"fmt"
	"os"
	"os/exec"
	"path/filepath"
	"sort"
	"strings"
	"sync"
)

type mutantSpec struct {
	Property       string `json:"property"`
	Name           string `json:"name"`
	Expect         string `json:"expect_key_contains"`
	ExpectDetected *bool  `json:"expect_detected,omitempty"`
	Neutral        bool   `json:"neutral,omitempty"` // a behaviour-preserving edit: the check must stay silent
	Note           string `json:"note,omitempty"`
	patch          string
}

type mutantResult struct {
	Spec     mutantSpec
	Status   string // detected | missed | known-miss | silent | false-alarm | known-false-alarm | skipped-no-apply | skipped-no-compile
	Reported string
}

// selfTest applies every frozen mutant of the property to a scratch copy of repo and requires the
// property's quick check to report the expected construct.
func selfTest(id, repo, verif string) ([]mutantResult, error) {
	dir := filepath.Join(verif, "mutants", id)
	specs, _ := filepath.Glob(filepath.Join(dir, "*.json"))
	sort.Strings(specs)
	var ms []mutantSpec
	for _, s := range specs {
		b, err := os.ReadFile(s)
		if err != nil {
			return nil, err
		}
		var m mutantSpec
		if err := json.Unmarshal(b, &m); err != nil {
			return nil, fmt.Errorf("%s: %v", s, err)
		}
		m.patch = strings.TrimSuffix(s, ".json") + ".patch"
		ms = append(ms, m)
	}
	self, err := os.Executable()
	if err != nil {
		return nil, err
	}
	res := make([]mutantResult, len(ms))
	sem := make(chan struct{}, 4)
	var wg sync.WaitGroup
	for i, m := range ms {
		wg.Add(1)
		go func(i int, m mutantSpec) {
			defer wg.Done()
			sem <- struct{}{}
			defer func() { <-sem }()
			res[i] = runMutant(self, id, repo, verif, m)
		}(i, m)
	}
	wg.Wait()
	return res, nil
}

func runMutant(self, id, repo, verif string, m mutantSpec) mutantResult {
	r := mutantResult{Spec: m}
	tmp, err := os.MkdirTemp("", "verifsa-mut-")
	if err != nil {
		r.Status = "skipped-no-apply"
		return r
	}
	defer os.RemoveAll(tmp)
	src := filepath.Join(tmp, "repo")
	vd := filepath.Join(tmp, "verif")
	os.MkdirAll(vd, 0o755)
	if out, err := exec.Command("rsync", "-a", "--exclude", ".git", repo+"/", src+"/").CombinedOutput(); err != nil {
		r.Status, r.Reported = "skipped-no-apply", string(out)
		return r
	}
	p := exec.Command("patch", "-p1", "-s", "--no-backup-if-mismatch", "-i", m.patch)
	p.Dir = src
	if out, err := p.CombinedOutput(); err != nil {
		r.Status, r.Reported = "skipped-no-apply", strings.TrimSpace(string(out))
		return r
	}
	env := append(os.Environ(), "GOFLAGS=-mod=mod", "GOPROXY=off", "GOSUMDB=off", "GOTOOLCHAIN=local", "GOWORK=off")
	b := exec.Command("go", "build", "-trimpath", "./...")
	b.Dir, b.Env = src, env
	if out, err := b.CombinedOutput(); err != nil {
		r.Status, r.Reported = "skipped-no-compile", firstLines(string(out), 3)
		return r
	}
	if kf, err := os.ReadFile(filepath.Join(verif, "known_findings.jsonl")); err == nil {
		os.WriteFile(filepath.Join(vd, "known_findings.jsonl"), kf, 0o644)
	}
	c := exec.Command(self, "check", id, "--tier", "quick", "--repo", src, "--verif", vd)
	c.Env = append(env, "VERIFSA_CHILD=1") // recursion guard: a child never runs the self-test
	out, _ := c.CombinedOutput()
	if m.Neutral {
		// a behaviour-preserving edit: any report is a false alarm of the checker
		alarm := ""
		for _, line := range strings.Split(string(out), "\n") {
			t := strings.TrimSpace(line)
			if strings.HasPrefix(t, "violated") || strings.HasPrefix(t, "undecided") || strings.HasPrefix(t, "anchor-lost") || strings.HasPrefix(t, "verifsa:") {
				alarm = t
				break
			}
		}
		switch {
		case alarm == "":
			r.Status = "silent"
		case m.ExpectDetected != nil && *m.ExpectDetected:
			r.Status, r.Reported = "known-false-alarm", alarm
		default:
			r.Status, r.Reported = "false-alarm", alarm
		}
		if len(r.Reported) > 300 {
			r.Reported = r.Reported[:300]
		}
		return r
	}
	found := ""
	for _, line := range strings.Split(string(out), "\n") {
		t := strings.TrimSpace(line)
		if (strings.HasPrefix(t, "violated") || strings.HasPrefix(t, "undecided") || strings.HasPrefix(t, "anchor-lost")) && strings.Contains(t, m.Expect) {
			found = t
			break
		}
	}
	switch {
	case found != "":
		r.Status, r.Reported = "detected", found
		if len(r.Reported) > 300 {
			r.Reported = r.Reported[:300]
		}
	case m.ExpectDetected != nil && !*m.ExpectDetected:
		r.Status = "known-miss"
	default:
		r.Status, r.Reported = "missed", firstLines(string(out), 6)
	}
	return r
}

func firstLines(s string, n int) string {
	l := strings.Split(strings.TrimSpace(s), "\n")
	if len(l) > n {
		l = l[:n]
	}
	return strings.Join(l, " | ")
}
