// Command dev: scratch census runs used while building rules (not a registered check).
package main

import (
	"fmt"
	"go/types"
	"os"
	"sort"
	"strings"
	"time"

	"verifsa/core"
	"verifsa/eng"
)

func main() {
	p, err := core.Load("/repo", core.Config{Name: "default"})
	if err != nil {
		fmt.Println(err)
		os.Exit(2)
	}
	switch os.Args[1] {
	case "errflow":
		n, bad := 0, 0
		for _, fn := range p.SrcFuncs(true) {
			for _, s := range eng.ErrSites(fn) {
				n++
				if !s.OK {
					bad++
					fmt.Printf("BAD %s %s -> %s: %s\n", p.Pos(s.Call.Pos()), core.FuncName(fn), s.Callee, s.Reason)
				} else if len(os.Args) > 2 {
					fmt.Printf("ok  %s %s -> %s: %s\n", p.Pos(s.Call.Pos()), core.FuncName(fn), s.Callee, s.Reason)
				}
			}
		}
		fmt.Println("sites", n, "bad", bad)
	case "lastelem":
		for _, fn := range p.SrcFuncs(true) {
			for _, s := range eng.LastElemSitesSSA(fn) {
				fmt.Printf("%v %s %s param=%d %s\n", s.Guarded, p.Pos(s.Instr.Pos()), core.FuncName(fn), s.Param, s.How)
			}
		}
	case "chain":
		for _, fn := range p.SrcFuncs(true) {
			for _, s := range eng.ChainLoopsSSA(fn) {
				fmt.Printf("%v %s %s L%d %s\n", s.OK, p.Pos(s.Pos), core.FuncName(fn), s.Level, s.Why)
			}
		}
	case "extcalls":
		cnt := map[string]int{}
		for _, fn := range p.SrcFuncs(true) {
			for _, c := range eng.Calls(fn) {
				cc := c.Common()
				if cc.IsInvoke() {
					if !core.IsLibraryPkg(pkgOf(cc.Method)) {
						cnt["invoke "+cc.Value.Type().String()+"."+cc.Method.Name()]++
					}
					continue
				}
				if f := cc.StaticCallee(); f != nil && !core.InModule(f) {
					cnt[f.String()]++
				} else if f == nil && eng.BuiltinName(c) == "" {
					cnt["dynamic:"+cc.Value.Type().String()]++
				}
			}
		}
		var ks []string
		for k := range cnt {
			ks = append(ks, k)
		}
		sort.Strings(ks)
		for _, k := range ks {
			fmt.Println(cnt[k], k)
		}
	case "modref":
		entries := eng.ExportedEntries(p)
		t0 := time.Now()
		m := eng.NewModRef(p, entries)
		m.Solve()
		fmt.Println("entries", len(entries), "funcs", len(m.Funcs), "iters", m.Iter, "objs", m.NumObjs(), "writes", len(m.Writes), time.Since(t0))
		nbad := 0
		for _, e := range m.Entries {
			ws := m.WritesToArgs(e)
			if len(ws) > 0 {
				nbad++
				fmt.Printf("WRITES %s\n", core.FuncName(e))
				seen := map[string]bool{}
				for _, w := range ws {
					k := p.Pos(w.Event.Instr.Pos()) + w.Target.String()
					if seen[k] {
						continue
					}
					seen[k] = true
					if len(seen) > 6 {
						break
					}
					fmt.Printf("    %s %s -> %s   via %v\n", p.Pos(w.Event.Instr.Pos()), w.Event.What, w.Target, w.Path)
				}
			}
		}
		fmt.Println("entries with writes:", nbad)
		for _, w := range m.GlobalWrites() {
			fmt.Printf("GLOBAL %s %s -> %s\n", p.Pos(w.Event.Instr.Pos()), core.FuncName(w.Event.Fn), w.Target)
		}
		for _, e := range m.Entries {
			if e.Name() == "Clone" {
				fmt.Printf("CLONE %s aliases=%v\n", core.FuncName(e), m.ResultAliases(e))
			}
		}
		for _, e := range m.Entries {
			if cs := m.ParamCaptures(e); len(cs) > 0 {
				fmt.Printf("CAPTURE %s", core.FuncName(e))
				for i, c := range cs {
					if i < 4 {
						fmt.Printf("  %s<-%s", c.Cell, c.Ref)
					}
				}
				fmt.Println()
			}
		}
		var ks []string
		for k, n := range m.Unmodeled {
			ks = append(ks, fmt.Sprintf("%s(%d)", k, n/m.Iter))
		}
		sort.Strings(ks)
		fmt.Println("unmodeled:", ks)
	case "stride":
		all := eng.AnalyzeStrideAll(p.SrcFuncs(true))
		for _, fn := range p.SrcFuncs(true) {
			si := all[fn]
			if len(si.Sites) == 0 {
				continue
			}
			fmt.Printf("%s strides=%d\n", core.FuncName(fn), si.Strides)
			for _, s := range si.Sites {
				extra := ""
				if s.What == "slice" {
					extra = fmt.Sprintf(" hi=%s span=%s", s.Hi, s.Span)
				}
				fmt.Printf("    %s %s %s%s store=%v\n", p.Pos(s.Instr.Pos()), s.What, s.Val, extra, s.Store)
			}
			for _, mv := range si.Moves {
				fmt.Printf("    move %s dst=%s src=%s\n", p.Pos(mv.Instr.Pos()), mv.Dst, mv.Src)
			}
			for _, c := range si.Calls {
				fmt.Printf("    call %s %s.%s = %s\n", p.Pos(c.Call.Pos()), c.Callee.Name(), c.Param, c.Val)
			}
		}
	case "escape":
		// calls from the planar packages passing coordinate-typed values to module code outside them
		planar := func(path string) bool {
			return strings.HasPrefix(path, core.ModPath+"/xy") || path == core.ModPath+"/bigxy"
		}
		coordT := func(t types.Type) bool {
			s := t.String()
			return s == "[]float64" || strings.HasSuffix(s, "go-geom.Coord") || strings.HasSuffix(s, "[]github.com/twpayne/go-geom.Coord")
		}
		cnt := map[string]int{}
		for _, fn := range p.SrcFuncs(true) {
			if !planar(core.FnPkgPath(fn)) {
				continue
			}
			for _, c := range eng.Calls(fn) {
				o := eng.CalleeObj(c)
				if o == nil || o.Pkg() == nil || planar(o.Pkg().Path()) || !strings.HasPrefix(o.Pkg().Path(), core.ModPath) {
					continue
				}
				has := false
				for _, a := range c.Common().Args {
					if coordT(a.Type()) {
						has = true
					}
				}
				if c.Common().IsInvoke() && coordT(c.Common().Value.Type()) {
					has = true
				}
				if has {
					cnt[core.FuncName(fn)+" -> "+o.FullName()]++
				}
			}
		}
		var ks []string
		for k := range cnt {
			ks = append(ks, k)
		}
		sort.Strings(ks)
		for _, k := range ks {
			fmt.Println(cnt[k], k)
		}
	case "funcs":
		for _, fn := range p.SrcFuncs(true) {
			fmt.Println(core.FuncName(fn))
		}
	}
}

func pkgOf(f *types.Func) string {
	if f.Pkg() == nil {
		return ""
	}
	return f.Pkg().Path()
}
