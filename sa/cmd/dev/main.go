// Command dev: scratch census runs used while building rules (not a registered check).
package main

import (
	"fmt"
	"go/ast"
	"go/types"
	"os"

	"golang.org/x/tools/go/packages"

	"verifsa/core"
	"verifsa/eng"
)

func main() {
	p, err := core.Load("/repo", core.Config{Name: "default"})
	if err != nil {
		fmt.Println(err)
		os.Exit(2)
	}
	switch os.Args[1] {
	case "errflow":
		n, bad := 0, 0
		for _, fn := range p.SrcFuncs(true) {
			for _, s := range eng.ErrSites(fn) {
				n++
				if !s.OK {
					bad++
					fmt.Printf("BAD %s %s -> %s: %s\n", p.Pos(s.Call.Pos()), core.FuncName(fn), s.Callee, s.Reason)
				} else if len(os.Args) > 2 {
					fmt.Printf("ok  %s %s -> %s: %s\n", p.Pos(s.Call.Pos()), core.FuncName(fn), s.Callee, s.Reason)
				}
			}
		}
		fmt.Println("sites", n, "bad", bad)
	case "lastelem":
		p.Decls(true, func(pkg *packages.Package, obj *types.Func, fd *ast.FuncDecl) {
			for _, s := range eng.LastElemSites(pkg, fd) {
				fmt.Printf("%v %s %s x=%s type=%v  %s\n", s.Guarded, p.Pos(s.Expr.Pos()), core.ObjName(obj), s.X, s.XType, s.How)
			}
		})
	case "chain":
		p.Decls(true, func(pkg *packages.Package, obj *types.Func, fd *ast.FuncDecl) {
			for _, s := range eng.ChainLoops(pkg, fd) {
				fmt.Printf("%v %s %s elem=%s L%d off=%s  %s\n", s.OK, p.Pos(s.Loop.Pos()), core.ObjName(obj), s.Elem, s.Level, s.Offset, s.Why)
			}
		})
	case "funcs":
		for _, fn := range p.SrcFuncs(true) {
			fmt.Println(core.FuncName(fn))
		}
	}
}
